#!/bin/sh
# thorough_some.sh "<ids>" [seed]: the given checks at the thorough tier on the unchanged /repo, from this copy of /verif.
VERIF=$(cd "$(dirname "$0")/.." && pwd); cd "$VERIF" || exit 2
export GCSIM_VERIF="$VERIF" GCSIM_CORPUS="$VERIF/sim/corpus" GCSIM_RULES="$VERIF/sim/rules/probe_*.go" GCSIM_OUT="$VERIF/out"
export VERIF_SEED=${2:-1}
for p in $1; do
  echo "=== $p thorough seed $VERIF_SEED $(date -u +%H:%M:%S)"
  ./bin/check $p thorough 2>&1 | grep -v "^    " | cut -c1-1200 | tail -40
  echo "=== $p done $(date -u +%H:%M:%S)"
done
