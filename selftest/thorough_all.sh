#!/bin/sh
# thorough_all.sh [seed]: every check at the thorough tier on the unchanged /repo, from this copy of /verif
# (evidence and replays go to ./out, so /verif/evidence is not touched). Meant for `vp run`.
VERIF=$(cd "$(dirname "$0")/.." && pwd); cd "$VERIF" || exit 2
export GCSIM_VERIF="$VERIF" GCSIM_CORPUS="$VERIF/sim/corpus" GCSIM_RULES="$VERIF/sim/rules/probe_*.go" GCSIM_OUT="$VERIF/out"
export VERIF_SEED=${1:-1}
rc=0
for p in C18 C19 C13 C05 C03 C02 C04; do
  echo "=== $p thorough seed $VERIF_SEED $(date -u +%H:%M:%S)"
  ./bin/check $p thorough 2>&1 | grep -v "^    " | cut -c1-1200 | tail -40; st=$?
  echo "=== $p done $(date -u +%H:%M:%S)"
done
