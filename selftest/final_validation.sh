#!/bin/sh
# final_validation.sh: on the unchanged /repo, from this copy of /verif (evidence to ./out):
# every quick check at seeds 2, 3, 4, the determinism selftest of every check, then every check at the thorough tier (seed 1).
VERIF=$(cd "$(dirname "$0")/.." && pwd); cd "$VERIF" || exit 2
export GCSIM_VERIF="$VERIF" GCSIM_CORPUS="$VERIF/sim/corpus" GCSIM_RULES="$VERIF/sim/rules/probe_*.go" GCSIM_OUT="$VERIF/out"
for s in 2 3 4; do
  for p in C18 C19 C13 C05 C03 C02 C04; do
    echo "=== quick $p seed $s $(date -u +%H:%M:%S)"
    VERIF_SEED=$s ./bin/check $p quick 2>&1 | grep -v "^    \|KNOWN-FINDING" | cut -c1-800 | tail -6
  done
done
for p in C18 C19 C13 C05 C03 C02 C04; do
  echo "=== selftest $p $(date -u +%H:%M:%S)"
  ./bin/gcsim selftest $p quick 2>&1 | tail -3 | cut -c1-600
done
for p in C18 C19 C13 C05 C03 C02 C04; do
  echo "=== thorough $p seed 1 $(date -u +%H:%M:%S)"
  VERIF_SEED=1 ./bin/check $p thorough 2>&1 | grep -v "^    \|KNOWN-FINDING" | cut -c1-1200 | tail -30
  echo "=== done $p $(date -u +%H:%M:%S)"
done
