#!/bin/sh
# regress_all.sh [tier]: the whole regression from this copy of /verif: benign trees (must stay silent),
# then every seeded change (must be caught). Meant for `vp run`.
VERIF=$(cd "$(dirname "$0")/.." && pwd); cd "$VERIF" || exit 2
echo "##### benign"; sh seeded/run_benign.sh ${1:-quick}; echo "benign rc=$?"
echo "##### seeded"; sh seeded/run_all.sh ${1:-quick}; echo "seeded rc=$?"
cat seeded/RESULTS.md
