package main

import (
	"bytes"
	"encoding/json"
	"fmt"
	"os/exec"
	"path/filepath"
	"sort"
	"strings"
	"sync"
	"time"

	"verif.local/gcsim/simapi"
	"verif.local/gcsim/simrt"
)

// C03 command-line leg: "the diagnostics ... do not depend on the order or
// grouping in which packages are named on the command line". The shipped
// go-critic binary (built from the working tree, no instrumentation, real
// package loader) is run as real processes on the same packages
//
//	A  all k packages named in one command,
//	B  the same packages in a seeded other order,
//	C  split into two commands at a seeded point,
//	Si each package alone,
//
// and what is printed for the files of each package must be the same multiset of
// lines in all of them; the exit status of a grouped command must be the
// maximum of the statuses of its members. The history here is the loader's and
// the package loop's (runCheckers), which the in-process engine stubs.

type groupCase struct {
	Dir     string   `json:"dir"`
	Targets []string `json:"targets"`
	Args    []string `json:"args"`
	Order   []int    `json:"order"`
	Split   int      `json:"split"`
	Binary  string   `json:"binary"`
}

const groupIndexBase = 2_000_000

// pkgloadKey is what the package loader's unit table is keyed by for a package
// whose *name* ends in _test: the import path minus five characters. The
// repository's example directories all declare `package checker_test` in
// non-test files, so two of them with equally long names that agree up to the
// last five characters collide there (see known_findings.json); generated
// groups keep such pairs apart, the pair is exercised by a fixed case.
func pkgloadKey(target string) string {
	if !strings.HasPrefix(target, "./testdata/") {
		return target
	}
	if len(target) <= 5 {
		return target
	}
	return target[:len(target)-5]
}

func genGroupCases(seed uint64, n int) []groupCase {
	all := corpusTargets()
	byDir := map[string][]string{}
	var dirs []string
	for _, t := range all {
		if _, ok := byDir[t.Dir]; !ok {
			dirs = append(dirs, t.Dir)
		}
		byDir[t.Dir] = append(byDir[t.Dir], t.Target)
	}
	sort.Strings(dirs)
	var out []groupCase
	for i := 0; i < n; i++ {
		r := simrt.NewRand(seed, fmt.Sprintf("C03b/%d", i))
		// two thirds over the hand-written corpus module, the rest over the repository's examples
		var pool []string
		var dir string
		for _, d := range dirs {
			isRepo := strings.HasPrefix(d, repoDir())
			if (i%3 == 2) == isRepo && len(byDir[d]) >= 2 {
				pool, dir = byDir[d], d
				break
			}
		}
		if pool == nil {
			continue
		}
		k := 2 + r.Intn(3)
		if k > len(pool) {
			k = len(pool)
		}
		gc := groupCase{Dir: dir, Binary: []string{"go-critic", "gocritic"}[i%2]}
		keys := map[string]bool{}
		for tries := 0; len(gc.Targets) < k && tries < 200; tries++ {
			t := pool[r.Intn(len(pool))]
			if keys[pkgloadKey(t)] {
				continue
			}
			keys[pkgloadKey(t)] = true
			gc.Targets = append(gc.Targets, t)
		}
		sort.Strings(gc.Targets)
		gc.Order = r.Perm(len(gc.Targets))
		ident := true
		for j, v := range gc.Order {
			if j != v {
				ident = false
			}
		}
		if ident { // make it a real permutation: reverse
			for j := range gc.Order {
				gc.Order[j] = len(gc.Order) - 1 - j
			}
		}
		gc.Split = 1 + r.Intn(len(gc.Targets)-1)
		switch r.Intn(3) {
		case 0:
			gc.Args = []string{"-enableAll"}
		case 1:
			gc.Args = []string{"-enable=#diagnostic,#style,#performance,#experimental,#opinionated,#security"}
		default:
			gc.Args = []string{} // the default selection
		}
		gc.Args = append(gc.Args, "-checkGenerated=true", fmt.Sprintf("-concurrency=%d", 1+r.Intn(8)))
		if r.Intn(2) == 0 && len(gc.Args) > 0 && gc.Args[0] == "-enableAll" {
			gc.Args = append(gc.Args, "-@ruleguard.rules="+filepath.Join(verifDir(), "sim", "rules", "probe_*.go"))
		}
		out = append(out, gc)
	}
	return out
}

// knownCollisionCase is the fixed case recorded in known_findings.json.
func knownCollisionCase() groupCase {
	return groupCase{Dir: filepath.Join(repoDir(), "checkers"), Targets: []string{"./testdata/badCall", "./testdata/badCond"},
		Args: []string{"-enable=badCond,badCall", "-checkGenerated=true"}, Order: []int{1, 0}, Split: 1, Binary: "go-critic"}
}

type procOut struct {
	out  string
	exit int
}

func runCheckProc(bi *buildInfo, gc *groupCase, targets []string) procOut {
	args := append([]string{"check"}, gc.Args...)
	args = append(args, targets...)
	var buf bytes.Buffer
	var err error
	for try := 0; try < 3; try++ {
		cmd := exec.Command(filepath.Join(bi.Dir, "frontends", gc.Binary), args...)
		cmd.Dir = gc.Dir
		cmd.Env = goEnv()
		buf.Reset()
		cmd.Stdout, cmd.Stderr = &buf, &buf
		if err = cmd.Run(); !killedSilently(err, buf.String()) {
			break
		}
		time.Sleep(3 * time.Second)
	}
	code := 0
	if err != nil {
		code = -1
		if ee, ok := err.(*exec.ExitError); ok {
			code = ee.ExitCode()
		}
	}
	return procOut{buf.String(), code}
}

func sortedLines(outs ...string) []string {
	var ls []string
	for _, o := range outs {
		for _, l := range strings.Split(o, "\n") {
			if strings.TrimSpace(l) != "" {
				ls = append(ls, l)
			}
		}
	}
	sort.Strings(ls)
	return ls
}

func lineDiff(a, b []string) (onlyA, onlyB []string) {
	i, j := 0, 0
	for i < len(a) && j < len(b) {
		switch {
		case a[i] == b[j]:
			i++
			j++
		case a[i] < b[j]:
			onlyA = append(onlyA, a[i])
			i++
		default:
			onlyB = append(onlyB, b[j])
			j++
		}
	}
	return append(onlyA, a[i:]...), append(onlyB, b[j:]...)
}

func crashed(p procOut) bool {
	return strings.Contains(p.out, "panic:") || strings.Contains(p.out, "goroutine 1 [") || strings.Contains(p.out, "SIGSEGV") || p.exit == 2 && strings.Contains(p.out, "runtime error")
}

func evalGroupCase(bi *buildInfo, gc *groupCase) (vios []simapi.Violation, procs int, ndiag int) {
	k := len(gc.Targets)
	perm := make([]string, k)
	for i, o := range gc.Order {
		perm[i] = gc.Targets[o%k]
	}
	type job struct {
		name    string
		targets []string
	}
	jobs := []job{{"all", gc.Targets}, {"permuted", perm}, {"split-1", perm[:gc.Split]}, {"split-2", perm[gc.Split:]}}
	for i, t := range gc.Targets {
		jobs = append(jobs, job{fmt.Sprintf("alone-%d", i), []string{t}})
	}
	res := make([]procOut, len(jobs))
	var wg sync.WaitGroup
	for i := range jobs {
		wg.Add(1)
		go func(i int) {
			defer wg.Done()
			res[i] = runCheckProc(bi, gc, jobs[i].targets)
		}(i)
	}
	wg.Wait()
	procs = len(jobs)
	pairKey := strings.Join(gc.Targets, "+")
	for i, r := range res {
		if crashed(r) {
			// a crash that every way of naming the packages shares is not about grouping
			alone := strings.HasPrefix(jobs[i].name, "alone-")
			if alone {
				continue
			}
			vios = append(vios, simapi.Violation{Class: "grouping-crash", Identity: "grouping-crash:" + pairKey,
				Detail: fmt.Sprintf("`%s check %s %s` (cwd %s) crashes (exit %d) while the same packages analysed alone do not: %s",
					gc.Binary, strings.Join(gc.Args, " "), strings.Join(jobs[i].targets, " "), gc.Dir, r.exit, short(r.out, 600))})
			return
		}
	}
	for i := 4; i < len(res); i++ {
		if crashed(res[i]) {
			return nil, procs, 0 // crashes alone too: C01/C19 territory, not judged here
		}
	}
	var aloneOuts []string
	maxExit := 0
	for i := 4; i < len(res); i++ {
		aloneOuts = append(aloneOuts, res[i].out)
		if res[i].exit > maxExit {
			maxExit = res[i].exit
		}
	}
	ref := sortedLines(aloneOuts...)
	ndiag = len(ref)
	cmp := func(name string, lines []string, exit int, wantExit int) {
		oa, ob := lineDiff(lines, ref)
		if len(oa)+len(ob) > 0 {
			checker := "?"
			for _, l := range append(append([]string(nil), oa...), ob...) {
				if parts := strings.SplitN(l, ": ", 3); len(parts) >= 3 {
					checker = parts[1]
					break
				}
			}
			vios = append(vios, simapi.Violation{Class: "depends-on-grouping", Identity: "depends-on-grouping:" + checker,
				Detail: fmt.Sprintf("`%s check %s` in %s: packages %v named %s print something else than each package named alone: only grouped [%s]; only alone [%s]",
					gc.Binary, strings.Join(gc.Args, " "), gc.Dir, gc.Targets, name, joinShort(oa, 3), joinShort(ob, 3))})
			return
		}
		if exit != wantExit {
			vios = append(vios, simapi.Violation{Class: "exit-depends-on-grouping", Identity: "exit-depends-on-grouping",
				Detail: fmt.Sprintf("`%s check %s` in %s: packages %v named %s exit with %d, the maximum over the packages named alone is %d",
					gc.Binary, strings.Join(gc.Args, " "), gc.Dir, gc.Targets, name, exit, wantExit)})
		}
	}
	cmp("together", sortedLines(res[0].out), res[0].exit, maxExit)
	if len(vios) == 0 {
		cmp(fmt.Sprintf("in the order %v", perm), sortedLines(res[1].out), res[1].exit, maxExit)
	}
	if len(vios) == 0 {
		se := res[2].exit
		if res[3].exit > se {
			se = res[3].exit
		}
		cmp(fmt.Sprintf("in two commands %v | %v", perm[:gc.Split], perm[gc.Split:]), sortedLines(res[2].out, res[3].out), se, maxExit)
	}
	return
}

func joinShort(ss []string, max int) string {
	if len(ss) > max {
		return strings.Join(ss[:max], " | ") + fmt.Sprintf(" | … (%d more)", len(ss)-max)
	}
	return strings.Join(ss, " | ")
}

func (c *checkCtx) runGroupCases(cases []groupCase, base int) []*simapi.RunResult {
	results := make([]*simapi.RunResult, len(cases))
	sem := make(chan struct{}, 4) // each case runs 4+k processes in parallel
	var wg sync.WaitGroup
	for i := range cases {
		wg.Add(1)
		sem <- struct{}{}
		go func(i int) {
			defer wg.Done()
			defer func() { <-sem }()
			gc := cases[i]
			t0 := time.Now()
			vios, procs, ndiag := evalGroupCase(c.Build, &gc)
			ex, _ := json.Marshal(gc)
			cfg := &simapi.RunConfig{Prop: "C03", Tier: c.Tier, Index: base + i, Seed: c.Seed, Kind: "frontend-grouping", Extra: ex}
			r := &simapi.RunResult{Index: base + i, Config: cfg, Verdict: "ok", Stats: map[string]int64{"real_processes": int64(procs), "diagnostics": int64(ndiag)},
				Probes: map[string]int64{"command_line_grouping_leg": 1}, WallMs: time.Since(t0).Milliseconds()}
			r.NonTrivial = ndiag >= 1
			r.DecisionID = "grouping:" + gc.Binary + ":" + strings.Join(gc.Targets, "+") + ":" + fmt.Sprint(gc.Order, gc.Split) + ":" + strings.Join(gc.Args, " ")
			if len(vios) > 0 {
				r.Verdict = "violation"
				r.Violations = vios
			}
			results[i] = r
		}(i)
	}
	wg.Wait()
	return results
}
