package main

import (
	"encoding/json"
	"fmt"
	"os"
	"path/filepath"
	"sort"

	"verif.local/gcsim/simapi"
)

func (c *checkCtx) writeEvidence(bt *batch, xp *xprocResult, reports []report, vioRuns int, wall float64, total int) {
	distinct := map[string]bool{}
	stats := map[string]int64{}
	faults := map[string]int64{}
	probes := map[string]int64{}
	skipped := 0
	var samples []any
	var notes []string
	for _, r := range bt.Results {
		if r.Verdict == "skip" {
			skipped++
			if len(notes) < 5 {
				notes = append(notes, r.Notes...)
			}
		}
		if r.NonTrivial && r.DecisionID != "" {
			distinct[r.DecisionID] = true
		}
		for k, v := range r.Stats {
			stats[k] += v
		}
		for k, v := range r.Faults {
			faults[k] += v
		}
		for k, v := range r.Probes {
			probes[k] += v
		}
		if len(samples) < 3 && r.Config != nil && r.NonTrivial {
			samples = append(samples, map[string]any{"run_index": r.Index, "config": r.Config, "stats": r.Stats, "verdict": r.Verdict})
		}
	}
	if len(samples) == 0 && len(bt.Results) > 0 {
		samples = append(samples, map[string]any{"run_index": bt.Results[0].Index, "config": bt.Results[0].Config})
	}
	siteSet, mapSeen, mapMulti, mapUnctl := 0, map[int]bool{}, map[int]bool{}, map[int]bool{}
	var refComputed int64
	for _, p := range bt.Procs {
		if v, ok := p["yield_sites_hit"].(float64); ok && int(v) > siteSet {
			siteSet = int(v)
		}
		for key, dst := range map[string]map[int]bool{"map_sites_seen": mapSeen, "map_sites_multi": mapMulti, "map_sites_uncontrolled": mapUnctl} {
			if l, ok := p[key].([]any); ok {
				for _, x := range l {
					if f, ok := x.(float64); ok {
						dst[int(f)] = true
					}
				}
			}
		}
		if v, ok := p["ref_entries_computed"].(float64); ok {
			refComputed += int64(v)
		}
	}
	siteName := func(set map[int]bool) []string {
		var out []string
		for id := range set {
			if id < len(c.Build.Sites) {
				out = append(out, c.Build.Sites[id].Pos)
			}
		}
		sort.Strings(out)
		return out
	}
	var vios []any
	known := 0
	for _, rp := range reports {
		if rp.Known {
			known++
		}
		vios = append(vios, map[string]any{"class": rp.Vio.Class, "identity": rp.Vio.Identity, "known_finding": rp.Known,
			"confirmed_by_replay": rp.Confirmed, "replay": rp.Path, "minimisation_steps": rp.MinSteps, "run_index": rp.Run.Index})
	}
	unlisted := 0
	for _, rp := range reports {
		if !rp.Known {
			unlisted++
		}
	}
	cov := map[string]any{
		"evaluations":         len(bt.Results),
		"distinct_nontrivial": len(distinct),
		"rule":                c.Plan.Rule,
		"samples":             samples,
		"runs_per_hour":       int(float64(len(bt.Results)) / (bt.WallS / 3600)),
		"seeds":               map[string]any{"VERIF_SEED": c.Seed, "run_seeds": "splitmix64(VERIF_SEED, property, run index); streams work/sched/map/fault"},
		"logical_time_steps":  stats["steps"],
		"totals":              stats,
		"faults_fired":        faults,
		"probes":              probes,
		"skipped_runs":        skipped,
		"skip_notes":          notes,
		"violating_runs":      vioRuns,
		"violations":          vios,
		"known_findings_seen": known,
		"cross_process": map[string]any{"processes": xp.processes, "run_executions_compared": xp.compared, "digest_mismatches": xp.mismatch,
			"gomaxprocs": []int{1, 4, 16}},
		"instrumentation": map[string]any{"tree_hash": c.Build.TreeHash, "sites": c.Build.Counts, "yield_sites_hit_max_per_process": siteSet,
			"map_sites_executed": siteName(mapSeen), "map_sites_with_2plus_entries": siteName(mapMulti), "map_sites_uncontrolled": siteName(mapUnctl)},
		"components":      componentsFor(c.ID),
		"workers":         bt.WorkersN,
		"worker_restarts": bt.Restarts, "workers_killed_from_outside_and_rerun": bt.KilledFromOutside, "workers_recycled_for_memory": bt.Recycled,
		"ref_entries": refComputed,
		"build_s":     c.Build.BuildS,
		"race_build":  c.Plan.Race,
	}
	if c.ID == "C18" {
		table, tableDone := 6600, 0
		for _, r := range bt.Results {
			if r.Index < table && (r.Verdict == "ok" || r.Verdict == "violation") {
				tableDone++
			}
		}
		cov["enumerated_policy_table"] = map[string]any{"scenarios": table, "executed": tableDone, "complete": tableDone == table,
			"space": "every single rule file and every ordered pair of rule files over 10 file kinds x 6 failOn forms x legacy flag x 5 pattern layouts, default group filter"}
	}
	ev := map[string]any{
		"property_id": c.ID,
		"tier":        c.Tier,
		"seed":        int64(c.Seed),
		"level":       c.Plan.Level,
		"coverage":    cov,
		"assumptions": append([]string{
			"sampled schedules, map orders and histories: a clean batch is evidence, not proof",
			"programs are the repository's own example packages (checkers/testdata/*, linttest sanity) plus the hand-written packages under /verif/sim/corpus and /verif/sim/oldmod - program generation belongs to properties this technique does not address",
			"nondeterminism inside std/x-tools/ruleguard is not owned by the simulator; only its effect on diagnostics is observed across processes",
		}, c.Plan.Assume...),
		"wall_s":     wall,
		"violations": unlisted,
	}
	os.MkdirAll(filepath.Join(outDir(), "evidence"), 0o755)
	b, _ := json.MarshalIndent(ev, "", " ")
	path := filepath.Join(outDir(), "evidence", c.ID+".json")
	if err := os.WriteFile(path, b, 0o644); err != nil {
		fmt.Fprintln(os.Stderr, "gcsim: cannot write evidence:", err)
	}
	_ = simapi.RunResult{}
}

// componentsFor says, per property, which components ran real code and which a stub.
func componentsFor(id string) map[string]any {
	real := []string{"linter", "checkers (hand-written and embedded rule groups)", "checkers/internal/astwalk, lintutil",
		"go-ruleguard, gogrep, go-toolsmith/*, go/types, go/ast (real, uninstrumented)"}
	stub := []string{"package loading inside the worker: go/packages runs once per process over the corpus (files parsed in an order the simulator owns); the program's call into its loader is served from it and the position table of the served files is mirrored into the program's own token.FileSet"}
	switch id {
	case "C02", "C03", "C04":
		real = append([]string{"cmd/go-critic: the real entry point of the check sub-command (runCheck) with every step the working tree gives it - flag parsing, validation, parameter assignment, loadProgram, initCheckers, runCheckers / checkPackage / checkFile with their goroutines and channels, printing, exit; three seams: the call into the package loader, os.Exit / log.Fatal*, and a hook at the entry of linter.(*Context).SetPackageInfo",
			"checkers/analyzer: Analyzer.Run, prepareGocritic, newGocritic, createCheckers"}, real...)
		stub = append(stub, "go/analysis driver: stub that starts one goroutine per package pass (what x/tools' checker does), Pass.Report collects per pass")
		if id == "C02" {
			real = append(real, "the shipped go-critic binary as real processes with the real package loader (cross-process leg)")
		}
		if id == "C03" {
			real = append(real, "the shipped go-critic and gocritic binaries as real processes with the real package loader (command-line order/grouping leg)")
		}
	case "C05":
		real = append([]string{"cmd/go-critic: the real entry point runCheck under seeded schedules (switch-point fingerprints)", "linter.NewChecker / Checker.Check for every registered checker (frame sweeps)"}, real...)
	case "C13":
		real = append([]string{"the astwalk walkers and every selected checker over permuted declaration orders / re-parsed transformed sources", "go/parser and go/types for the in-memory re-check"}, real...)
	case "C18":
		real = append([]string{"newRuleguardChecker and ruleguardChecker.WalkFile", "go-ruleguard parser, DSL type-check, importer (against the real module cache) and engine"}, real...)
		stub = append(stub, "the rule files' disk: os.ReadFile and filepath.Glob in go-critic are replaced by the simulated disk with its fault plan")
	case "C19":
		real = append([]string{"checkers/analyzer under a stub driver (a)", "the four shipped front-end binaries as real processes with real `go list` and type-checking (b)"}, real...)
		stub = append(stub, "go/analysis driver in (a): stub starting passes sequentially or in parallel", "workspaces in (b): generated std-only modules with injected file faults")
	}
	return map[string]any{"real": real, "stub": stub, "build": "overlay instrumentation of the current working tree (go build -overlay -modfile); no source commit in /repo carries a hook"}
}
