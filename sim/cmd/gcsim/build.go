package main

import (
	"bytes"
	"crypto/sha256"
	"encoding/hex"
	"fmt"
	"os"
	"os/exec"
	"path/filepath"
	"sort"
	"strings"
	"time"

	"verif.local/gcsim/instr"
)

// buildInfo describes the instrumented binaries of one check invocation.
type buildInfo struct {
	Dir        string // content addressed build directory
	Worker     string // instrumented worker, no race detector
	WorkerRace string // instrumented worker, -race
	Sites      []instr.Site
	Counts     map[string]int
	BuildS     float64
	TreeHash   string
}

func goEnv() []string {
	env := os.Environ()
	set := func(k, v string) {
		for i, e := range env {
			if strings.HasPrefix(e, k+"=") {
				env[i] = k + "=" + v
				return
			}
		}
		env = append(env, k+"="+v)
	}
	set("GOFLAGS", "-mod=mod")
	set("GOPROXY", "off")
	set("GOSUMDB", "off")
	set("GOTOOLCHAIN", "local")
	set("GOWORK", "off")
	return env
}

func verifDir() string {
	if d := os.Getenv("GCSIM_VERIF"); d != "" {
		return d
	}
	return "/verif"
}

// outDir is where evidence and replay files go: /verif unless GCSIM_OUT redirects them
// (runs against seeded changes in scratch worktrees must not overwrite the evidence of
// the unchanged tree).
func outDir() string {
	if d := os.Getenv("GCSIM_OUT"); d != "" {
		return d
	}
	return verifDir()
}

func repoDir() string {
	if d := os.Getenv("GCSIM_REPO"); d != "" {
		return d
	}
	return "/repo"
}

func hashTree(h *bytes.Buffer, root string, keep func(string) bool) error {
	var files []string
	err := filepath.Walk(root, func(p string, st os.FileInfo, err error) error {
		if err != nil {
			return err
		}
		if st.IsDir() {
			if st.Name() == ".git" {
				return filepath.SkipDir
			}
			return nil
		}
		if keep(p) {
			files = append(files, p)
		}
		return nil
	})
	if err != nil {
		return err
	}
	sort.Strings(files)
	for _, f := range files {
		b, err := os.ReadFile(f)
		if err != nil {
			return err
		}
		fmt.Fprintf(h, "%s %d\n", f, len(b))
		h.Write(b)
	}
	return nil
}

// build instruments the current working tree of the repository and builds the
// worker binaries. Everything lands in a content-addressed directory under the
// system temp dir, so an unchanged tree reuses the Go build cache and a
// changed tree never sees stale output. Nothing there is needed by a later
// command: it is rebuilt when missing.
func build(needRace, needPlain bool) (*buildInfo, error) {
	t0 := time.Now()
	repo, verif := repoDir(), verifDir()
	var hb bytes.Buffer
	isGo := func(p string) bool {
		return strings.HasSuffix(p, ".go") || strings.HasSuffix(p, ".mod") || strings.HasSuffix(p, ".sum") || strings.HasSuffix(p, ".txt")
	}
	for _, d := range []string{"linter", "checkers", "cmd"} {
		if err := hashTree(&hb, filepath.Join(repo, d), func(p string) bool {
			return isGo(p) && !strings.Contains(p, "/testdata/")
		}); err != nil {
			return nil, err
		}
	}
	for _, f := range []string{"go.mod", "go.sum"} {
		b, _ := os.ReadFile(filepath.Join(repo, f))
		hb.Write(b)
	}
	if err := hashTree(&hb, filepath.Join(verif, "sim"), isGo); err != nil {
		return nil, err
	}
	sum := sha256.Sum256(hb.Bytes())
	tree := hex.EncodeToString(sum[:8])
	dir := filepath.Join(os.TempDir(), "gcsim-build-"+tree)
	bi := &buildInfo{Dir: dir, TreeHash: tree, Worker: filepath.Join(dir, "worker"), WorkerRace: filepath.Join(dir, "worker-race")}
	if err := os.MkdirAll(dir, 0o755); err != nil {
		return nil, err
	}

	full := instr.Options{Yields: true, MapSeam: true, FSSeam: true}
	mainOpt := full
	mainOpt.RenameMain = true
	res, err := instr.Instrument(repo, dir, []instr.PackageSpec{
		{Pattern: "./linter", Opt: full},
		{Pattern: "./checkers", Opt: full},
		{Pattern: "./checkers/internal/astwalk", Opt: full},
		{Pattern: "./checkers/internal/lintutil", Opt: full},
		{Pattern: "./checkers/analyzer", Opt: instr.Options{Yields: true, MapSeam: true, FSSeam: true, GenReset: true}},
		{Pattern: "./cmd/go-critic", Opt: mainOpt},
	}, goEnv())
	if err != nil {
		return nil, fmt.Errorf("instrument: %w", err)
	}
	bi.Sites, bi.Counts = res.Sites, res.Counts
	extra := map[string]string{
		filepath.Join(repo, "cmd/go-critic/zz_gcsim_shim.go"): filepath.Join(verif, "sim/shims/cli_shim.go.txt"),
	}
	ovl, err := res.WriteOverlay(dir, extra)
	if err != nil {
		return nil, err
	}
	// alternate modfile: the repository's go.mod plus the simulator module
	mod, err := os.ReadFile(filepath.Join(repo, "go.mod"))
	if err != nil {
		return nil, err
	}
	alt := string(mod) + "\nrequire verif.local/gcsim v0.0.0\n\nreplace verif.local/gcsim => " + filepath.Join(verif, "sim") + "\n"
	modPath := filepath.Join(dir, "go.mod")
	if err := os.WriteFile(modPath, []byte(alt), 0o644); err != nil {
		return nil, err
	}
	sumA, _ := os.ReadFile(filepath.Join(repo, "go.sum"))
	sumB, _ := os.ReadFile(filepath.Join(verif, "sim/go.sum"))
	if err := os.WriteFile(filepath.Join(dir, "go.sum"), append(append(sumA, '\n'), sumB...), 0o644); err != nil {
		return nil, err
	}
	buildOne := func(out string, race bool) error {
		if st, err := os.Stat(out); err == nil && st.Size() > 0 {
			return nil // same tree hash => same binary
		}
		args := []string{"build", "-overlay", ovl, "-modfile", modPath}
		if race {
			args = append(args, "-race")
		}
		tmp := out + ".tmp"
		args = append(args, "-o", tmp, "./cmd/go-critic")
		cmd := exec.Command("go", args...)
		cmd.Dir = repo
		cmd.Env = goEnv()
		var buf bytes.Buffer
		cmd.Stdout, cmd.Stderr = &buf, &buf
		if err := cmd.Run(); err != nil {
			return fmt.Errorf("go %s: %v\n%s", strings.Join(args, " "), err, buf.String())
		}
		return os.Rename(tmp, out)
	}
	errc := make(chan error, 2)
	n := 0
	if needPlain {
		n++
		go func() { errc <- buildOne(bi.Worker, false) }()
	}
	if needRace {
		n++
		go func() { errc <- buildOne(bi.WorkerRace, true) }()
	}
	for i := 0; i < n; i++ {
		if e := <-errc; e != nil && err == nil {
			err = e
		}
	}
	if err != nil {
		return nil, err
	}
	bi.BuildS = time.Since(t0).Seconds()
	return bi, nil
}
