package main

import (
	"encoding/json"
	"os"
	"path/filepath"
	"strings"

	"verif.local/gcsim/simapi"
)

// Known findings: genuine defects of go-critic that are recorded rather than
// repaired. The file is committed, never written at run time, and matches a
// violation by property + class + identity (the specific checker, call site or
// history), so a different violation of the same property is still reported.

type knownFinding struct {
	Property string `json:"property"`
	Class    string `json:"class"`
	Identity string `json:"identity"` // exact, or a prefix ending in '*'
	What     string `json:"what"`
}

type knownFile struct {
	Findings []knownFinding `json:"findings"`
	Fixed    []string       `json:"fixed"`
}

func loadKnown() *knownFile {
	kf := &knownFile{}
	b, err := os.ReadFile(filepath.Join(verifDir(), "known_findings.json"))
	if err != nil {
		return kf
	}
	if err := json.Unmarshal(b, kf); err != nil {
		die2("known_findings.json: %v", err)
	}
	return kf
}

func (k *knownFile) match(prop string, v simapi.Violation) *knownFinding {
	for i := range k.Findings {
		f := &k.Findings[i]
		if f.Property != prop || f.Class != v.Class {
			continue
		}
		if f.Identity == v.Identity || (strings.HasSuffix(f.Identity, "*") && strings.HasPrefix(v.Identity, strings.TrimSuffix(f.Identity, "*"))) {
			return f
		}
	}
	return nil
}
