package main

import (
	"bufio"
	"bytes"
	"encoding/json"
	"fmt"
	"os"
	"os/exec"
	"path/filepath"
	"sort"
	"strings"
	"sync"
	"syscall"
	"time"

	"verif.local/gcsim/simapi"
)

// workerOutcome is what one worker process left behind.
type workerOutcome struct {
	Results  []*simapi.RunResult
	Proc     map[string]any
	ExitCode int
	Stderr   string
	Crashed  *int // index of the run that was executing when the process died
	// Killed: the process was ended by SIGKILL that the harness did not send and left
	// no Go runtime text behind - the kernel's out-of-memory killer, an operator. That
	// says nothing about the program under test: the run is executed again.
	Killed   bool
	Finished bool
	// Next: the worker asked to be recycled; a fresh process continues from this run index
	Next *int
}

var startConfigs sync.Map // run index -> *simapi.RunConfig of the last start marker seen

func readResults(path string) (rs []*simapi.RunResult, proc map[string]any, lastStart *int, done bool, next *int) {
	f, err := os.Open(path)
	if err != nil {
		return
	}
	defer f.Close()
	sc := bufio.NewScanner(f)
	sc.Buffer(make([]byte, 1<<20), 256<<20)
	open := map[int]bool{}
	for sc.Scan() {
		var r simapi.RunResult
		if err := json.Unmarshal(sc.Bytes(), &r); err != nil {
			continue
		}
		switch {
		case r.Start != nil:
			i := *r.Start
			open[i] = true
			lastStart = &i
			if r.Config != nil {
				startConfigs.Store(i, r.Config)
			}
		case r.Done:
			done = true
			proc = r.Proc
			next = r.Next
		default:
			delete(open, r.Index)
			rr := r
			rs = append(rs, &rr)
		}
	}
	if lastStart != nil && !open[*lastStart] {
		lastStart = nil
	}
	return
}

// runWorkerR is runWorker for jobs that are simply started again, whole, when the
// process was killed from outside (see workerOutcome.Killed).
func runWorkerR(bin string, job *simapi.Job, scratch string, tag string, gomaxprocs int, timeout time.Duration) *workerOutcome {
	for try := 0; ; try++ {
		wo := runWorker(bin, job, scratch, fmt.Sprintf("%s-t%d", tag, try), gomaxprocs, timeout)
		if !wo.Killed || try >= 2 {
			return wo
		}
		time.Sleep(10 * time.Second)
	}
}

// runWorker executes one worker process on a job.
func runWorker(bin string, job *simapi.Job, scratch string, tag string, gomaxprocs int, timeout time.Duration) *workerOutcome {
	jobPath := filepath.Join(scratch, tag+".job.json")
	job.Out = filepath.Join(scratch, tag+".out.jsonl")
	b, _ := json.Marshal(job)
	os.WriteFile(jobPath, b, 0o644)
	os.Remove(job.Out)
	cmd := exec.Command(bin, jobPath)
	cmd.Dir = filepath.Join(job.RepoDir, "checkers")
	env := goEnv()
	raceLog := filepath.Join(scratch, tag+".race")
	env = append(env, "GORACE=halt_on_error=0 log_path="+raceLog+" history_size=4", "GCSIM_RACE_LOG="+raceLog,
		fmt.Sprintf("GOMAXPROCS=%d", gomaxprocs), "GOTRACEBACK=all", memLimitEnv(16))
	cmd.Env = env
	var stderr bytes.Buffer
	cmd.Stderr = &stderr
	cmd.Stdout = &stderr
	done := make(chan error, 1)
	if err := cmd.Start(); err != nil {
		return &workerOutcome{ExitCode: -1, Stderr: err.Error()}
	}
	go func() { done <- cmd.Wait() }()
	var werr error
	select {
	case werr = <-done:
	case <-time.After(timeout):
		cmd.Process.Kill()
		<-done
		werr = fmt.Errorf("worker timed out after %v", timeout)
	}
	wo := &workerOutcome{Stderr: stderr.String()}
	if werr != nil {
		wo.ExitCode = -1
		if ee, ok := werr.(*exec.ExitError); ok {
			wo.ExitCode = ee.ExitCode()
			if ws, ok := ee.Sys().(syscall.WaitStatus); ok && ws.Signaled() && ws.Signal() == syscall.SIGKILL && !goRuntimeText(wo.Stderr) {
				wo.Killed = true
			}
		} else {
			wo.Stderr += "\n" + werr.Error()
		}
	}
	var last *int
	wo.Results, wo.Proc, last, wo.Finished, wo.Next = readResults(job.Out)
	if !wo.Finished {
		wo.Crashed = last
	}
	return wo
}

// killedSilently: a real process of the program under test ended by SIGKILL without
// having printed anything from the Go runtime - the out-of-memory killer's
// signature. Real-process legs run such a command again instead of judging it.
func killedSilently(err error, out string) bool {
	ee, ok := err.(*exec.ExitError)
	if !ok {
		return false
	}
	ws, ok := ee.Sys().(syscall.WaitStatus)
	return ok && ws.Signaled() && ws.Signal() == syscall.SIGKILL && !goRuntimeText(out)
}

// goRuntimeText: did a dying Go process say anything (panic, fatal error, a trace)?
func goRuntimeText(s string) bool {
	return strings.Contains(s, "panic:") || strings.Contains(s, "fatal error:") || strings.Contains(s, "goroutine ") || strings.Contains(s, "runtime.")
}

// memLimitEnv gives every worker a soft heap limit (GOMEMLIMIT) of its share of
// 60% of the machine's memory, so that the collector works harder before the
// kernel has to choose a victim.
func memLimitEnv(nproc int) string {
	b, err := os.ReadFile("/proc/meminfo")
	if err != nil || nproc < 1 {
		return "GOMEMLIMIT=3GiB"
	}
	var kb int64
	for _, ln := range strings.Split(string(b), "\n") {
		if strings.HasPrefix(ln, "MemTotal:") {
			fmt.Sscanf(strings.TrimSpace(strings.TrimPrefix(ln, "MemTotal:")), "%d", &kb)
		}
	}
	if kb <= 0 {
		return "GOMEMLIMIT=3GiB"
	}
	per := kb / 1024 * 6 / 10 / int64(nproc)
	if per < 1024 {
		per = 1024
	}
	return fmt.Sprintf("GOMEMLIMIT=%dMiB", per)
}

// crashViolation turns a dead worker into a result for the run it was executing.
func crashResult(prop string, idx int, wo *workerOutcome) *simapi.RunResult {
	tail := wo.Stderr
	if len(tail) > 6000 {
		tail = tail[:2500] + "\n…\n" + tail[len(tail)-3000:]
	}
	class := "crash"
	frame := "?"
	// first /repo frame of the panic trace identifies the crash site
	for _, ln := range strings.Split(wo.Stderr, "\n") {
		ln = strings.TrimSpace(ln)
		if strings.HasPrefix(ln, "/repo/") {
			frame = strings.Fields(ln)[0]
			frame = strings.TrimPrefix(frame, "/repo/")
			break
		}
	}
	var cfg *simapi.RunConfig
	if c, ok := startConfigs.Load(idx); ok {
		cfg = c.(*simapi.RunConfig)
	}
	return &simapi.RunResult{Index: idx, Verdict: "violation", Config: cfg,
		Violations: []simapi.Violation{{Class: class, Identity: class + ":" + frame,
			Detail: fmt.Sprintf("worker process died (exit %d) while executing run %d:\n%s", wo.ExitCode, idx, tail)}}}
}

type batch struct {
	Results  []*simapi.RunResult
	Procs    []map[string]any
	Harness  []string // harness trouble (exit 2 material)
	WorkersN int
	WallS    float64
	Restarts int
	// Recycled: worker processes that handed over to a fresh one because their heap had grown
	Recycled int
	// KilledFromOutside: worker processes ended by a SIGKILL that was not ours (re-executed)
	KilledFromOutside int
}

// runBatch fans run indices [0,total) out over nproc worker processes
// (strided), restarting a worker after the run that killed it.
func runBatch(bin, refBin string, base simapi.Job, total, nproc int, scratch, tag string, perWorkerTimeout time.Duration) *batch {
	return runBatchRange(bin, refBin, base, 0, total, nproc, scratch, tag, perWorkerTimeout)
}

// runBatchRange is runBatch over the run indices [lo, total).
func runBatchRange(bin, refBin string, base simapi.Job, lo, total, nproc int, scratch, tag string, perWorkerTimeout time.Duration) *batch {
	t0 := time.Now()
	if nproc > total-lo {
		nproc = total - lo
	}
	if nproc < 1 {
		nproc = 1
	}
	bt := &batch{WorkersN: nproc}
	killed := map[int]int{}
	var mu sync.Mutex
	var wg sync.WaitGroup
	for k := 0; k < nproc; k++ {
		wg.Add(1)
		go func(k int) {
			defer wg.Done()
			from := lo + k
			refPath := ""
			if refBin != "" {
				// reference phase in the plain build: reference diagnostics and
				// calibration for exactly this worker's run indices
				refPath = filepath.Join(scratch, fmt.Sprintf("%s-w%d.ref.json", tag, k))
				rj := base
				rj.Mode = "ref"
				rj.From, rj.To, rj.Stride = from, total, nproc
				rj.RefPath = refPath
				ro := runWorkerR(refBin, &rj, scratch, fmt.Sprintf("%s-w%d-ref", tag, k), 4, perWorkerTimeout)
				if !ro.Finished {
					mu.Lock()
					bt.Harness = append(bt.Harness, fmt.Sprintf("reference worker %d died (exit %d): %s", k, ro.ExitCode, short(ro.Stderr, 2000)))
					mu.Unlock()
					return
				}
			}
			for attempt := 0; from < total; attempt++ {
				job := base
				job.Mode = "runs"
				job.RefPath = refPath
				job.From, job.To, job.Stride = from, total, nproc
				wo := runWorker(bin, &job, scratch, fmt.Sprintf("%s-w%d-a%d", tag, k, attempt), 4, perWorkerTimeout)
				mu.Lock()
				bt.Results = append(bt.Results, wo.Results...)
				if wo.Proc != nil {
					bt.Procs = append(bt.Procs, wo.Proc)
				}
				mu.Unlock()
				if wo.Finished && wo.Next != nil {
					mu.Lock()
					bt.Recycled++
					mu.Unlock()
					from = *wo.Next
					continue
				}
				if wo.Finished {
					return
				}
				// the worker died
				if wo.Crashed == nil {
					mu.Lock()
					bt.Harness = append(bt.Harness, fmt.Sprintf("worker %d died outside a run (exit %d): %s", k, wo.ExitCode, short(wo.Stderr, 2000)))
					mu.Unlock()
					return
				}
				idx := *wo.Crashed
				mu.Lock()
				bt.Restarts++
				if wo.Killed {
					killed[idx]++
					bt.KilledFromOutside++
					if killed[idx] <= 2 {
						mu.Unlock()
						from = idx // the same run again, in a fresh process
						time.Sleep(time.Duration(5+k) * time.Second)
						continue
					}
					bt.Harness = append(bt.Harness, fmt.Sprintf("run %d: the worker was killed by SIGKILL %d times without a word (out of memory?); not a verdict about the program", idx, killed[idx]))
					mu.Unlock()
					return
				}
				switch {
				case wo.ExitCode == 75 || wo.ExitCode == 73 || strings.Contains(wo.Stderr, "worker timed out"):
					bt.Harness = append(bt.Harness, fmt.Sprintf("run %d: harness trouble (exit %d): %s", idx, wo.ExitCode, short(wo.Stderr, 1500)))
				case wo.ExitCode == 71 || wo.ExitCode == 72:
					// scheduler abort: the worker already wrote the violation result
					found := false
					for _, r := range wo.Results {
						if r.Index == idx && r.Verdict == "violation" {
							found = true
						}
					}
					if !found {
						bt.Harness = append(bt.Harness, fmt.Sprintf("run %d: scheduler abort without result", idx))
					}
				default:
					bt.Results = append(bt.Results, crashResult(base.Prop, idx, wo))
				}
				mu.Unlock()
				from = idx + nproc
			}
		}(k)
	}
	wg.Wait()
	sort.Slice(bt.Results, func(i, j int) bool { return bt.Results[i].Index < bt.Results[j].Index })
	bt.WallS = time.Since(t0).Seconds()
	return bt
}

func short(s string, n int) string {
	if len(s) <= n {
		return s
	}
	return s[:n] + "…"
}
