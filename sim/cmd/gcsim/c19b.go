package main

import (
	"bytes"
	"encoding/json"
	"fmt"
	"os"
	"os/exec"
	"path/filepath"
	"regexp"
	"strings"
	"sync"
	"time"

	"verif.local/gcsim/simapi"
	"verif.local/gcsim/simrt"
)

// C19 (b): the four front-end binaries, built from the working tree as
// shipped (no instrumentation), run as real processes on generated workspaces
// with injected configuration faults and workspace (disk) faults. These runs
// are deterministic functions of the seed (workspace content and flags).

const feIndexBase = 1_000_000

type feCase struct {
	Binary  string   `json:"binary"`   // go-critic | gocritic | go-critic-analysis | gocritic-analysis
	Fault   string   `json:"fault"`    // fault kind
	Class   string   `json:"class"`    // config | workspace | none
	Flags   []string `json:"flags"`    // extra flags
	Names   []string `json:"names"`    // the message must contain one of these
	NPkgs   int      `json:"npkgs"`    // package count of the large workspace
	FaultAt int      `json:"fault_at"` // package hit by the workspace fault
	Offset  int      `json:"offset"`   // torn write offset (fraction in permille)
}

var frontends = []string{"go-critic", "gocritic", "go-critic-analysis", "gocritic-analysis"}

func buildFrontends(bi *buildInfo) error {
	dir := filepath.Join(bi.Dir, "frontends")
	os.MkdirAll(dir, 0o755)
	var wg sync.WaitGroup
	errs := make([]error, len(frontends))
	for i, fe := range frontends {
		out := filepath.Join(dir, fe)
		if st, err := os.Stat(out); err == nil && st.Size() > 0 {
			continue
		}
		wg.Add(1)
		go func(i int, fe, out string) {
			defer wg.Done()
			cmd := exec.Command("go", "build", "-o", out+".tmp", "./cmd/"+fe)
			cmd.Dir = repoDir()
			cmd.Env = goEnv()
			var buf bytes.Buffer
			cmd.Stdout, cmd.Stderr = &buf, &buf
			if err := cmd.Run(); err != nil {
				errs[i] = fmt.Errorf("go build ./cmd/%s: %v\n%s", fe, err, buf.String())
				return
			}
			errs[i] = os.Rename(out+".tmp", out)
		}(i, fe, out)
	}
	wg.Wait()
	for _, e := range errs {
		if e != nil {
			return e
		}
	}
	return nil
}

func genFECase(seed uint64, i int) feCase {
	r := simrt.NewRand(seed, fmt.Sprintf("C19b/%d", i))
	c := feCase{Binary: frontends[i%len(frontends)], NPkgs: 2 + r.Intn(4)}
	c.FaultAt = r.Intn(c.NPkgs)
	c.Offset = 50 + r.Intn(900)
	analysis := strings.HasSuffix(c.Binary, "-analysis")
	kinds := []string{"malformed-go-version", "unknown-failOn", "rules-pattern-without-match", "empty-selection", "empty-selection-by-disable", "unparsable-parameter",
		"torn-write", "lost-write", "lost-package", "flipped-identifier", "mixed-package-clauses", "none",
		"torn-write-at-zero", "torn-in-package-clause", "flipped-keyword", "comment-only-file", "torn-test-file",
		"rules-valid-then-pattern-without-match", "unknown-failOn-with-other-checkers", "non-positive-concurrency",
		"malformed-import-path", "unresolved-import", "empty-enable-value"}
	c.Fault = kinds[(i/len(frontends))%len(kinds)]
	switch c.Fault {
	case "malformed-go-version":
		vs := []string{"abc", "1", "1.x", "go1", "1.2.3", "v1.20"}
		v := vs[r.Intn(len(vs))]
		c.Class, c.Flags, c.Names = "config", []string{"-go=" + v}, []string{v, strings.TrimPrefix(v, "go"), "version"}
	case "unknown-failOn":
		c.Class, c.Flags, c.Names = "config", []string{"-enable=ruleguard", "-disable=", "-@ruleguard.rules=rules.go", "-@ruleguard.failOn=bogus"}, []string{"bogus"}
	case "rules-pattern-without-match":
		c.Class, c.Flags, c.Names = "config", []string{"-enable=ruleguard", "-disable=", "-@ruleguard.rules=nomatch-*.go"}, []string{"nomatch-*.go"}
	case "rules-valid-then-pattern-without-match":
		c.Class, c.Flags, c.Names = "config", []string{"-enable=ruleguard,assignOp", "-disable=", "-@ruleguard.rules=rules.go,nomatch-*.go"}, []string{"nomatch-*.go"}
	case "unknown-failOn-with-other-checkers":
		c.Class, c.Flags, c.Names = "config", []string{"-enable=ruleguard,assignOp,switchTrue", "-disable=", "-@ruleguard.rules=rules.go", "-@ruleguard.failOn=bogus"}, []string{"bogus"}
	case "non-positive-concurrency":
		// how many checkers may run at once: zero or fewer is not a configuration anything can run under
		vs := []string{"0", "-1", "-8"}
		c.Class, c.Flags, c.Names = "config", []string{"-concurrency=" + vs[r.Intn(len(vs))]}, []string{"concurrency"}
	case "empty-selection":
		c.Class, c.Flags, c.Names = "config", []string{"-enable=nosuchchecker", "-disable="}, []string{"empty", "nosuchchecker"}
	case "empty-enable-value":
		// a list that is explicitly empty (-enable=$CHECKS with CHECKS unset) is an empty selection, not "the default"
		vs := []string{"", " , ", ","}
		c.Class, c.Flags, c.Names = "config", []string{"-enable=" + vs[r.Intn(len(vs))]}, []string{"empty", "enable"}
	case "empty-selection-by-disable":
		c.Class, c.Flags, c.Names = "config", []string{"-enable=hugeParam", "-disable=hugeParam"}, []string{"empty", "hugeParam"}
	case "unparsable-parameter":
		c.Class, c.Flags, c.Names = "config", []string{"-@hugeParam.sizeThreshold=abc"}, []string{"sizeThreshold", "abc"}
	case "none":
		c.Class = "none"
	default:
		c.Class = "workspace"
	}
	if c.Class == "workspace" || c.Class == "none" {
		// half of the workspace cases run every checker (some checkers ask the library for
		// more per-file tables than the default set does)
		if r.Intn(2) == 0 || c.Fault == "malformed-import-path" || c.Fault == "unresolved-import" {
			if analysis {
				c.Flags = append(c.Flags, "-enable-all")
			} else {
				c.Flags = append(c.Flags, "-enableAll")
			}
		}
	}
	return c
}

func pkgSource(i int, importPrev bool) (a, b string) {
	imp := ""
	use := ""
	if importPrev {
		imp = fmt.Sprintf("import \"example.com/ws/p%d\"\n\n", i-1)
		use = fmt.Sprintf("\t_ = p%d.Helper%d(a)\n", i-1, i-1)
	}
	a = fmt.Sprintf("package p%d\n\n%s// Work%d does some work.\nfunc Work%d(a, b int, s []int) int {\n%s\tif !(a == b) {\n\t\ta = a + 1\n\t}\n\tif len(s) >= 0 {\n\t\tb = b * 2\n\t}\n\treturn Helper%d(a) + b\n}\n", i, imp, i, i, use, i)
	b = fmt.Sprintf("package p%d\n\n// Helper%d helps.\nfunc Helper%d(x int) int {\n\tswitch {\n\tcase x > 0:\n\t\treturn x\n\t}\n\treturn -x\n}\n", i, i, i)
	return
}

// writeWorkspace creates a module with n packages and applies the fault to package at.
func writeWorkspace(dir string, n int, c *feCase, at int) error {
	if err := os.MkdirAll(dir, 0o755); err != nil {
		return err
	}
	os.WriteFile(filepath.Join(dir, "go.mod"), []byte("module example.com/ws\n\ngo 1.23\n"), 0o644)
	os.WriteFile(filepath.Join(dir, "rules.go"), []byte("//go:build ignore\n\npackage gorules\n\nimport \"github.com/quasilyte/go-ruleguard/dsl\"\n\nfunc probe(m dsl.Matcher) {\n\tm.Match(`$x = $x + 1`).Report(`increment`)\n}\n"), 0o644)
	for i := 0; i < n; i++ {
		pd := filepath.Join(dir, fmt.Sprintf("p%d", i))
		os.MkdirAll(pd, 0o755)
		a, b := pkgSource(i, i > 0)
		if i == at {
			switch c.Fault {
			case "torn-write":
				cut := len(a) * c.Offset / 1000
				a = a[:cut]
			case "lost-write":
				b = "" // the file with Helper is gone: undefined identifier
			case "flipped-identifier":
				a = strings.Replace(a, fmt.Sprintf("return Helper%d(a)", i), fmt.Sprintf("return Helpex%d(a)", i), 1)
			case "mixed-package-clauses":
				b = strings.Replace(b, fmt.Sprintf("package p%d", i), "package other", 1)
			case "malformed-import-path":
				// one flipped byte inside an import path: not a legal path any more
				a = strings.Replace(a, fmt.Sprintf("package p%d\n", i), fmt.Sprintf("package p%d\n\nimport \"bad path\"\n", i), 1)
			case "unresolved-import":
				a = strings.Replace(a, fmt.Sprintf("package p%d\n", i), fmt.Sprintf("package p%d\n\nimport gone \"example.com/ws/gone\"\n\nvar _ = gone.X\n", i), 1)
			case "lost-package":
				a, b = "", "" // every file gone: importers cannot resolve the package
			case "torn-write-at-zero":
				b = "\n" // the write was torn before the first byte: an empty .go file next to a healthy one
			case "torn-in-package-clause":
				b = b[:3+c.Offset%5] // "pac", "pack", ... : the package clause itself is cut
			case "flipped-keyword":
				b = "packagf" + b[len("package"):] // one flipped bit in the first token
			case "comment-only-file":
				b = "// Helper lives elsewhere now.\n/* nothing left */\n"
			case "torn-test-file":
				// a third, _test.go file cut in the middle
				t := fmt.Sprintf("package p%d\n\nimport \"testing\"\n\nfunc TestWork(t *testing.T) {\n\tif Work%d(1, 2, nil) == 0 {\n\t\tt.Fatal()\n\t}\n}\n", i, i)
				os.WriteFile(filepath.Join(pd, "a_test.go"), []byte(t[:len(t)*c.Offset/1000]), 0o644)
			}
		}
		if a != "" {
			os.WriteFile(filepath.Join(pd, "a.go"), []byte(a), 0o644)
		}
		if b != "" {
			os.WriteFile(filepath.Join(pd, "b.go"), []byte(b), 0o644)
		}
	}
	return nil
}

var panicRE = regexp.MustCompile(`(?m)^panic: |^goroutine \d+ \[|SIGSEGV|^fatal error: |runtime error: `)

type feRun struct {
	Exit     int
	Output   string
	TimedOut bool
}

func runFrontend(bi *buildInfo, c *feCase, ws string) feRun {
	for try := 0; ; try++ {
		r, again := runFrontendOnce(bi, c, ws)
		if !again || try >= 2 {
			return r
		}
		time.Sleep(3 * time.Second)
	}
}

// runFrontendOnce; again = the process was killed from outside without a word (run it again).
func runFrontendOnce(bi *buildInfo, c *feCase, ws string) (feRun, bool) {
	bin := filepath.Join(bi.Dir, "frontends", c.Binary)
	var args []string
	if !strings.HasSuffix(c.Binary, "-analysis") {
		args = append(args, "check")
	}
	args = append(args, c.Flags...)
	args = append(args, "./...")
	cmd := exec.Command(bin, args...)
	cmd.Dir = ws
	env := goEnv()
	env = append(env, "GOTRACEBACK=all")
	cmd.Env = env
	var buf bytes.Buffer
	cmd.Stdout, cmd.Stderr = &buf, &buf
	done := make(chan error, 1)
	if err := cmd.Start(); err != nil {
		return feRun{Exit: -1, Output: err.Error()}, false
	}
	go func() { done <- cmd.Wait() }()
	var err error
	to := false
	select {
	case err = <-done:
	case <-time.After(90 * time.Second):
		cmd.Process.Kill()
		<-done
		to = true
	}
	r := feRun{Output: buf.String(), TimedOut: to}
	if err != nil {
		r.Exit = -1
		if ee, ok := err.(*exec.ExitError); ok {
			r.Exit = ee.ExitCode()
		}
	}
	return r, !to && killedSilently(err, r.Output)
}

func containsAnyStr(s string, subs []string) bool {
	for _, x := range subs {
		if x != "" && strings.Contains(s, x) {
			return true
		}
	}
	return false
}

// judgeFE evaluates one case (two processes: 1 package and n packages).
func judgeFE(c *feCase, one, many feRun) []simapi.Violation {
	var vs []simapi.Violation
	id := func(class string) string {
		kind := "cli"
		if strings.HasSuffix(c.Binary, "-analysis") {
			kind = "analysis"
		}
		return fmt.Sprintf("%s:%s:%s", class, kind, c.Fault)
	}
	add := func(class, detail string) {
		vs = append(vs, simapi.Violation{Class: class, Identity: id(class),
			Detail: fmt.Sprintf("%s %s (fault %s, %d packages in the large workspace, fault in p%d): %s", c.Binary, strings.Join(c.Flags, " "), c.Fault, c.NPkgs, c.FaultAt, detail)})
	}
	for k, r := range []feRun{one, many} {
		which := []string{"1 package", fmt.Sprintf("%d packages", c.NPkgs)}[k]
		if r.TimedOut {
			add("frontend-hang", which+": no exit within 90s (killed)")
			return vs
		}
		if loc := panicRE.FindStringIndex(r.Output); loc != nil {
			add("frontend-panic", fmt.Sprintf("%s: exit %d with a Go panic trace:\n%s", which, r.Exit, short(r.Output[loc[0]:], 1200)))
			return vs
		}
		if c.Class == "config" {
			if r.Exit == 0 {
				add("config-error-exit-zero", fmt.Sprintf("%s: exit status 0 for an invalid configuration; output: %q", which, short(r.Output, 400)))
				return vs
			}
			if !containsAnyStr(r.Output, c.Names) {
				add("error-does-not-name-problem", fmt.Sprintf("%s: exit %d but the output names none of %v: %q", which, r.Exit, c.Names, short(r.Output, 400)))
				return vs
			}
		}
	}
	if c.Class == "config" && (one.Exit == 0) != (many.Exit == 0) {
		add("verdict-depends-on-package-count", fmt.Sprintf("exit %d with 1 package, %d with %d packages", one.Exit, many.Exit, c.NPkgs))
	}
	return vs
}

// runFECases executes n cases (each two real processes) on up to 16 cores.
func (c *checkCtx) runFECases(n int, only *feCase) []*simapi.RunResult {
	results := make([]*simapi.RunResult, n)
	sem := make(chan struct{}, 16)
	var wg sync.WaitGroup
	for i := 0; i < n; i++ {
		wg.Add(1)
		sem <- struct{}{}
		go func(i int) {
			defer wg.Done()
			defer func() { <-sem }()
			fc := genFECase(c.Seed, i)
			if only != nil {
				fc = *only
			}
			t0 := time.Now()
			w1 := filepath.Join(c.Scratch, fmt.Sprintf("ws-%d-one", i))
			wn := filepath.Join(c.Scratch, fmt.Sprintf("ws-%d-many", i))
			writeWorkspace(w1, 1, &fc, 0)
			writeWorkspace(wn, fc.NPkgs, &fc, fc.FaultAt)
			one := runFrontend(c.Build, &fc, w1)
			many := runFrontend(c.Build, &fc, wn)
			os.RemoveAll(w1)
			os.RemoveAll(wn)
			ex, _ := json.Marshal(fc)
			cfg := &simapi.RunConfig{Prop: "C19", Tier: c.Tier, Index: feIndexBase + i, Seed: c.Seed, Kind: "frontend-process", Extra: ex}
			r := &simapi.RunResult{Index: feIndexBase + i, Config: cfg, Verdict: "ok", NonTrivial: fc.Class != "none",
				Stats:  map[string]int64{"frontend_processes": 2},
				Faults: map[string]int64{"process:" + fc.Fault: 1}, Probes: map[string]int64{"binary_" + fc.Binary: 1},
				DecisionID: fmt.Sprintf("fe:%s:%s:%v:%d:%d:%d", fc.Binary, fc.Fault, fc.Flags, fc.NPkgs, fc.FaultAt, fc.Offset),
				WallMs:     time.Since(t0).Milliseconds()}
			if fc.Class == "none" {
				r.Faults = map[string]int64{}
			}
			r.Violations = judgeFE(&fc, one, many)
			if len(r.Violations) > 0 {
				r.Verdict = "violation"
			}
			if one.Exit != 0 || many.Exit != 0 {
				r.Probes["nonzero_exit"] = 1
			}
			results[i] = r
		}(i)
	}
	wg.Wait()
	return results
}
