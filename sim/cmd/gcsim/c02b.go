package main

import (
	"bytes"
	"encoding/json"
	"fmt"
	"os"
	"os/exec"
	"path/filepath"
	"sort"
	"strings"
	"sync"
	"time"

	"verif.local/gcsim/simapi"
)

// C02 cross-process leg with the shipped binary: the same `go-critic check`
// command is executed as several real processes (real map iteration order,
// real goroutine timing, different GOMAXPROCS and -concurrency values); the
// output bytes and the exit status must be identical. Nondeterminism here is
// not owned by the simulator, so a failure is reported with a statistical
// replay (the same command repeated).

type repeatCase struct {
	Dir     string   `json:"dir"`    // working directory
	Target  string   `json:"target"` // package pattern(s), space separated
	Args    []string `json:"args"`
	Repeats int      `json:"repeats"`
	Binary  string   `json:"binary,omitempty"` // go-critic (default) or go-critic-analysis
}

func corpusTargets() []repeatCase {
	var out []repeatCase
	td := filepath.Join(repoDir(), "checkers", "testdata")
	ents, _ := os.ReadDir(td)
	for _, e := range ents {
		if e.IsDir() && !strings.HasPrefix(e.Name(), "_") {
			if gos, _ := filepath.Glob(filepath.Join(td, e.Name(), "*.go")); len(gos) > 0 {
				out = append(out, repeatCase{Dir: filepath.Join(repoDir(), "checkers"), Target: "./testdata/" + e.Name()})
			}
		}
	}
	cd := filepath.Join(verifDir(), "sim", "corpus")
	ents, _ = os.ReadDir(cd)
	for _, e := range ents {
		if e.IsDir() {
			out = append(out, repeatCase{Dir: filepath.Join(verifDir(), "sim"), Target: "./corpus/" + e.Name()})
		}
	}
	od := filepath.Join(verifDir(), "sim", "oldmod")
	ents, _ = os.ReadDir(od)
	for _, e := range ents {
		if e.IsDir() {
			out = append(out, repeatCase{Dir: od, Target: "./" + e.Name()})
		}
	}
	sort.Slice(out, func(i, j int) bool { return out[i].Target < out[j].Target })
	return out
}

// multiTargets are commands over several packages at once: the command's package loop
// and, for the go/analysis binary, the stock driver that analyses packages in parallel.
func multiTargets() []repeatCase {
	sim := filepath.Join(verifDir(), "sim")
	chk := filepath.Join(repoDir(), "checkers")
	few := "./testdata/appendAssign ./testdata/evalOrder ./testdata/dupImport ./testdata/importShadow ./testdata/hugeParam ./testdata/commentedOutCode"
	return []repeatCase{
		{Dir: sim, Target: "./corpus/..."},
		{Dir: sim, Target: "./corpus/...", Binary: "go-critic-analysis"},
		{Dir: chk, Target: few},
		{Dir: chk, Target: few, Binary: "go-critic-analysis"},
	}
}

func runRepeat(bi *buildInfo, rc *repeatCase) (outs []string, exits []int) {
	gmps := []int{1, 4, 16, 2, 8, 16}
	concs := []string{"1", "4", "200", "2", "16", "3"}
	for k := 0; k < rc.Repeats; k++ {
		rules := "-@ruleguard.rules=" + filepath.Join(verifDir(), "sim", "rules", "probe_*.go")
		args := append([]string{"check", "-enableAll", "-checkGenerated=true", "-concurrency=" + concs[k%len(concs)], rules}, rc.Args...)
		bin := "go-critic"
		if rc.Binary == "go-critic-analysis" {
			bin = rc.Binary
			args = append([]string{"-enable-all", rules}, rc.Args...)
		}
		args = append(args, strings.Fields(rc.Target)...)
		var buf bytes.Buffer
		var err error
		for try := 0; try < 3; try++ {
			cmd := exec.Command(filepath.Join(bi.Dir, "frontends", bin), args...)
			cmd.Dir = rc.Dir
			cmd.Env = append(goEnv(), fmt.Sprintf("GOMAXPROCS=%d", gmps[k%len(gmps)]))
			buf.Reset()
			cmd.Stdout, cmd.Stderr = &buf, &buf
			if err = cmd.Run(); !killedSilently(err, buf.String()) {
				break
			}
			time.Sleep(3 * time.Second)
		}
		code := 0
		if err != nil {
			code = -1
			if ee, ok := err.(*exec.ExitError); ok {
				code = ee.ExitCode()
			}
		}
		outs = append(outs, buf.String())
		exits = append(exits, code)
	}
	return
}

func (c *checkCtx) runRepeatCases(cases []repeatCase, base int) []*simapi.RunResult {
	results := make([]*simapi.RunResult, len(cases))
	sem := make(chan struct{}, 16)
	var wg sync.WaitGroup
	for i := range cases {
		wg.Add(1)
		sem <- struct{}{}
		go func(i int) {
			defer wg.Done()
			defer func() { <-sem }()
			rc := cases[i]
			t0 := time.Now()
			outs, exits := runRepeat(c.Build, &rc)
			ex, _ := json.Marshal(rc)
			cfg := &simapi.RunConfig{Prop: "C02", Tier: c.Tier, Index: base + i, Seed: c.Seed, Kind: "frontend-repeat", Extra: ex}
			r := &simapi.RunResult{Index: base + i, Config: cfg, Verdict: "ok", Stats: map[string]int64{"real_processes": int64(rc.Repeats)},
				Probes: map[string]int64{"real_binary_leg": 1}, WallMs: time.Since(t0).Milliseconds()}
			lines := strings.Count(outs[0], "\n")
			r.Stats["diagnostics"] = int64(lines)
			r.NonTrivial = lines >= 2
			r.DecisionID = "repeat:" + rc.Binary + ":" + rc.Target
			for k := 1; k < len(outs); k++ {
				if outs[k] != outs[0] || exits[k] != exits[0] {
					a, b := strings.Split(outs[0], "\n"), strings.Split(outs[k], "\n")
					j := 0
					for j < len(a) && j < len(b) && a[j] == b[j] {
						j++
					}
					la, lb := "<end>", "<end>"
					if j < len(a) {
						la = a[j]
					}
					if j < len(b) {
						lb = b[j]
					}
					checker := "?"
					if parts := strings.SplitN(la, ": ", 3); len(parts) >= 2 {
						checker = parts[1]
					}
					if strings.Contains(outs[0]+outs[k], "panic:") {
						checker = "panic"
					}
					r.Verdict = "violation"
					r.Violations = []simapi.Violation{{Class: "process-output-differs", Identity: "process-output-differs:" + checker,
						Detail: fmt.Sprintf("`%s -enableAll %s` (cwd %s): process %d of %d printed something else than process 0 (exit %d vs %d); first difference at line %d: %q vs %q; replay is statistical (the command repeated)",
							map[bool]string{true: "go-critic-analysis", false: "go-critic check"}[rc.Binary == "go-critic-analysis"], rc.Target, rc.Dir, k, len(outs), exits[k], exits[0], j+1, short(la, 300), short(lb, 300))}}
					break
				}
			}
			results[i] = r
		}(i)
	}
	wg.Wait()
	return results
}
