package main

import (
	"encoding/json"
	"fmt"
	"strings"
	"time"

	"verif.local/gcsim/model"

	"verif.local/gcsim/simapi"
	"verif.local/gcsim/simrt"
)

func cloneCfg(c *simapi.RunConfig) simapi.RunConfig {
	b, _ := json.Marshal(c)
	var out simapi.RunConfig
	json.Unmarshal(b, &out)
	return out
}

func sameViolation(r *simapi.RunResult, want simapi.Violation) bool {
	for _, v := range r.Violations {
		if v.Class == want.Class && v.Identity == want.Identity {
			return true
		}
		// the identity of a rule-file finding embeds the scenario shape, which
		// shrinking changes on purpose: the class decides
		if v.Class == want.Class && r.Config != nil && r.Config.Kind == "rulefs" {
			return true
		}
	}
	return false
}

// ruleCandidates shrinks a C18 scenario: fewer files, default filters, one construction.
func ruleCandidates(c *simapi.RunConfig) []simapi.RunConfig {
	var run model.RuleRun
	if json.Unmarshal(c.Extra, &run) != nil {
		return nil
	}
	var out []simapi.RunConfig
	add := func(f func(r *model.RuleRun) bool) {
		var r model.RuleRun
		b, _ := json.Marshal(run)
		json.Unmarshal(b, &r)
		if !f(&r) {
			return
		}
		r.Rebuild()
		n := cloneCfg(c)
		n.Extra, _ = json.Marshal(r)
		out = append(out, n)
	}
	setPatterns := func(r *model.RuleRun, pats []string) {
		r.Scenario.Patterns = pats
		r.RulesArg = strings.Join(pats, ",")
	}
	for i := range run.Specs {
		i := i
		if len(run.Specs) > 1 {
			add(func(r *model.RuleRun) bool {
				gone := r.Specs[i].Path
				r.Specs = append(append([]model.RuleFileSpec(nil), r.Specs[:i]...), r.Specs[i+1:]...)
				var pats []string
				for _, p := range r.Scenario.Patterns {
					if strings.TrimSpace(p) != gone {
						pats = append(pats, strings.TrimSpace(p))
					}
				}
				if len(pats) == 0 {
					return false
				}
				setPatterns(r, pats)
				return true
			})
		}
		if run.Specs[i].Kind != "valid" {
			add(func(r *model.RuleRun) bool { r.Specs[i].Kind, r.Specs[i].Fault = "valid", ""; return true })
		}
		if len(run.Specs[i].Groups) > 1 && run.Specs[i].Kind != "torn-boundary" {
			add(func(r *model.RuleRun) bool { r.Specs[i].Groups = r.Specs[i].Groups[:1]; return true })
		}
	}
	if len(run.Scenario.Patterns) > 1 {
		for i := range run.Scenario.Patterns {
			i := i
			add(func(r *model.RuleRun) bool {
				var pats []string
				for k, p := range r.Scenario.Patterns {
					if k != i {
						pats = append(pats, strings.TrimSpace(p))
					}
				}
				setPatterns(r, pats)
				return true
			})
		}
	}
	if run.Scenario.Enable != "<all>" {
		add(func(r *model.RuleRun) bool { r.Scenario.Enable = "<all>"; return true })
	}
	if run.Scenario.Disable != "" {
		add(func(r *model.RuleRun) bool { r.Scenario.Disable = ""; return true })
	}
	if run.Scenario.FailOn != "" {
		add(func(r *model.RuleRun) bool { r.Scenario.FailOn = ""; return true })
	}
	if run.Scenario.FailOnError {
		add(func(r *model.RuleRun) bool { r.Scenario.FailOnError = false; return true })
	}
	if run.Builds > 1 {
		add(func(r *model.RuleRun) bool { r.Builds = 1; return true })
	}
	if strings.ContainsAny(run.RulesArg, " ") {
		add(func(r *model.RuleRun) bool { setPatterns(r, r.Scenario.Patterns); return true })
	}
	return out
}

// argIndex finds the flag with the given name ("enable", "concurrency", ...).
func argIndex(args []string, name string) int {
	for i, a := range args {
		a = strings.TrimLeft(a, "-")
		k, _, _ := strings.Cut(a, "=")
		if k == name {
			return i
		}
	}
	return -1
}

// candidates proposes strictly simpler configurations, most aggressive first.
func candidates(c *simapi.RunConfig, vio simapi.Violation) []simapi.RunConfig {
	if c.Kind == "rulefs" {
		return ruleCandidates(c)
	}
	var out []simapi.RunConfig
	add := func(f func(n *simapi.RunConfig) bool) {
		n := cloneCfg(c)
		if f(&n) {
			out = append(out, n)
		}
	}
	// variants: keep the reference and one other
	if len(c.Variants) > 2 {
		for k := 1; k < len(c.Variants); k++ {
			k := k
			add(func(n *simapi.RunConfig) bool {
				n.Variants = []simapi.Variant{n.Variants[0], n.Variants[k]}
				return true
			})
		}
	}
	// visits: halves, then single removals
	if len(c.Visits) > 1 {
		h := len(c.Visits) / 2
		add(func(n *simapi.RunConfig) bool { n.Visits = n.Visits[h:]; return true })
		add(func(n *simapi.RunConfig) bool { n.Visits = n.Visits[:h]; return true })
		for i := range c.Visits {
			i := i
			add(func(n *simapi.RunConfig) bool {
				n.Visits = append(append([]simapi.Visit(nil), n.Visits[:i]...), n.Visits[i+1:]...)
				return true
			})
		}
	}
	// files inside visits
	for i, v := range c.Visits {
		if len(v.Files) > 1 {
			for j := range v.Files {
				i, j := i, j
				add(func(n *simapi.RunConfig) bool {
					fs := n.Visits[i].Files
					n.Visits[i].Files = append(append([]int(nil), fs[:j]...), fs[j+1:]...)
					return true
				})
			}
		}
	}
	// selection
	if ai := argIndex(c.Args, "enableAll"); ai >= 0 {
		// replace by the checkers the violation names plus the packages' namesakes
		names := map[string]bool{}
		if _, rest, ok := strings.Cut(vio.Identity, ":"); ok {
			for _, s := range strings.Split(rest, ",") {
				if s != "" && !strings.ContainsAny(s, " /<>") {
					names[s] = true
				}
			}
		}
		for _, v := range c.Visits {
			names[v.Pkg] = true
		}
		var list []string
		for n := range names {
			list = append(list, n)
		}
		if len(list) > 0 {
			add(func(n *simapi.RunConfig) bool { n.Args[ai] = "-enable=" + strings.Join(list, ","); return true })
		}
	}
	if ai := argIndex(c.Args, "enable"); ai >= 0 {
		_, v, _ := strings.Cut(c.Args[ai], "=")
		list := strings.Split(v, ",")
		if len(list) > 1 {
			h := len(list) / 2
			add(func(n *simapi.RunConfig) bool { n.Args[ai] = "-enable=" + strings.Join(list[:h], ","); return true })
			add(func(n *simapi.RunConfig) bool { n.Args[ai] = "-enable=" + strings.Join(list[h:], ","); return true })
			if len(list) <= 12 {
				for i := range list {
					i := i
					add(func(n *simapi.RunConfig) bool {
						l := append(append([]string(nil), list[:i]...), list[i+1:]...)
						n.Args[ai] = "-enable=" + strings.Join(l, ",")
						return true
					})
				}
			}
		}
	}
	// parameters
	for i, a := range c.Args {
		if strings.HasPrefix(a, "-@") {
			i := i
			add(func(n *simapi.RunConfig) bool {
				n.Args = append(append([]string(nil), n.Args[:i]...), n.Args[i+1:]...)
				return true
			})
		}
	}
	// concurrency
	if ai := argIndex(c.Args, "concurrency"); ai >= 0 && c.Args[ai] != "-concurrency=1" {
		add(func(n *simapi.RunConfig) bool { n.Args[ai] = "-concurrency=1"; return true })
		if c.Args[ai] != "-concurrency=2" {
			add(func(n *simapi.RunConfig) bool { n.Args[ai] = "-concurrency=2"; return true })
		}
	}
	// schedule and map policy of every variant
	for vi := range c.Variants {
		vi := vi
		v := c.Variants[vi]
		if v.MapPolicy == simrt.MapShuffle {
			add(func(n *simapi.RunConfig) bool {
				n.Variants[vi].MapPolicy, n.Variants[vi].MapSeed = simrt.MapReversed, 0
				return true
			})
		}
		if v.MapPolicy != simrt.MapCanonical && !(len(c.Variants) > 1 && vi > 0 && c.Prop == "C02" && false) {
			add(func(n *simapi.RunConfig) bool {
				n.Variants[vi].MapPolicy, n.Variants[vi].MapSeed = simrt.MapCanonical, 0
				return true
			})
		}
		if v.Sched == nil {
			continue
		}
		serial := v.Sched.Strategy == simrt.StratPrio && v.Sched.PrioRule == simrt.PrioWorkersFirst && len(v.Sched.ChangePoints) == 0
		if !serial {
			add(func(n *simapi.RunConfig) bool {
				n.Variants[vi].Sched = &simrt.SchedConfig{Strategy: simrt.StratPrio, PrioRule: simrt.PrioWorkersFirst, StepBudget: v.Sched.StepBudget}
				n.Variants[vi].CPFrac = nil
				return true
			})
			add(func(n *simapi.RunConfig) bool {
				n.Variants[vi].Sched = &simrt.SchedConfig{Strategy: simrt.StratPrio, PrioRule: simrt.PrioMainFirst, StepBudget: v.Sched.StepBudget}
				n.Variants[vi].CPFrac = nil
				return true
			})
		}
		if len(v.Sched.ChangePoints) > 0 {
			for k := range v.Sched.ChangePoints {
				k := k
				add(func(n *simapi.RunConfig) bool {
					cp := n.Variants[vi].Sched.ChangePoints
					n.Variants[vi].Sched.ChangePoints = append(append([]int64(nil), cp[:k]...), cp[k+1:]...)
					return true
				})
			}
		}
		if len(v.Sched.Explicit) > 1 {
			ex := v.Sched.Explicit
			for _, chunk := range []int{len(ex) / 2, len(ex) / 4, len(ex) / 8} {
				if chunk < 1 {
					continue
				}
				for s := 0; s < len(ex); s += chunk {
					s, e := s, s+chunk
					if e > len(ex) {
						e = len(ex)
					}
					add(func(n *simapi.RunConfig) bool {
						x := n.Variants[vi].Sched.Explicit
						n.Variants[vi].Sched.Explicit = append(append([]simrt.Decision(nil), x[:s]...), x[e:]...)
						return true
					})
				}
			}
		}
	}
	return out
}

func cfgSize(c *simapi.RunConfig) int {
	b, _ := json.Marshal(c)
	return len(b)
}

// minimiseAndConfirm shrinks the failing configuration while the same
// violation (class and identity) persists, then replays the result in a fresh
// process to confirm that it fails the same way.
func (c *checkCtx) minimiseAndConfirm(rp *report, shrink bool) {
	cur := cloneCfg(rp.Run.Config)
	deadline := time.Now().Add(4 * time.Minute)
	steps := 0
	for round := 0; shrink && round < 40 && time.Now().Before(deadline); round++ {
		cands := candidates(&cur, rp.Vio)
		if len(cands) == 0 {
			break
		}
		if len(cands) > 48 {
			cands = cands[:48]
		}
		res, herr := c.execConfigs(cands, fmt.Sprintf("min-r%d", round))
		if herr != "" {
			break
		}
		progressed := false
		for _, r := range res {
			if r.Index < len(cands) && sameViolation(r, rp.Vio) && r.Config != nil {
				n := cloneCfg(r.Config) // the executed (resolved) configuration
				if cfgSize(&n) <= cfgSize(&cur) || true {
					cur = n
					progressed = true
					steps++
					break
				}
			}
		}
		if !progressed {
			break
		}
	}
	// confirm in a fresh process
	res, herr := c.execConfigs([]simapi.RunConfig{cloneCfg(&cur)}, "confirm")
	if herr == "" {
		for _, r := range res {
			if sameViolation(r, rp.Vio) {
				rp.Confirmed = true
				for _, v := range r.Violations {
					if v.Class == rp.Vio.Class && (v.Identity == rp.Vio.Identity || (r.Config != nil && r.Config.Kind == "rulefs")) {
						rp.Vio.Detail = v.Detail
						break
					}
				}
				if r.Config != nil {
					n := cloneCfg(r.Config)
					cur = n
				}
			}
		}
	}
	if rp.Confirmed {
		rp.Min = &cur
		rp.MinSteps = steps
		return
	}
	if steps == 0 {
		return
	}
	// The shrunk configuration does not fail on its own in a fresh process:
	// candidates of one round share a worker process, and a defect that keeps
	// process-wide state can make a later candidate fail only because of an
	// earlier one. Fall back to the original configuration, alone, in a fresh
	// process.
	orig := cloneCfg(rp.Run.Config)
	res, herr = c.execConfigs([]simapi.RunConfig{orig}, "confirm-orig")
	if herr == "" {
		for _, r := range res {
			if sameViolation(r, rp.Vio) {
				rp.Confirmed = true
				rp.MinSteps = 0
				if r.Config != nil {
					n := cloneCfg(r.Config)
					rp.Min = &n
				}
			}
		}
	}
}
