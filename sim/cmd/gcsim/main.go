// gcsim is the orchestrator of the deterministic simulation of go-critic: it
// instruments and builds the current working tree of the repository, fans
// seeded runs out over worker processes, evaluates and minimises violations,
// writes replay files and evidence.
//
//	gcsim check <ID> [quick|thorough]        run a property check
//	gcsim check <ID> --replay <file>         replay a recorded violation
//
// Exit status: 0 property held on everything explored (listed known findings
// are printed), 1 violation (a line "VIOLATION property=<id> replay=<path>"),
// 2 build or harness trouble (never a verdict).
package main

import (
	"encoding/json"
	"fmt"
	"os"
	"path/filepath"
	"sort"
	"strconv"
	"strings"
	"time"

	"verif.local/gcsim/simapi"
)

type plan struct {
	Race       bool
	Quick      int // runs
	Thorough   int
	Procs      int
	XProc      int // runs re-executed in other processes at other GOMAXPROCS
	Level      string
	Rule       string
	Components []string
	Assume     []string
}

var plans = map[string]*plan{
	"C02": {Race: false, Quick: 330, Thorough: 6000, Procs: 16, XProc: 24, Level: "exploration",
		Rule: "a case is one workload (packages x selection x parameters x -concurrency, drawn from the seed) executed under 5 (quick) or 7 (thorough) variants: (map policy, schedule) pairs, one of them over the twin corpus whose files were registered in the token.FileSet in another seeded order; distinct = distinct hash of (flags, visits, applied map permutations, hand-over sequence); non-trivial = at least one applied permutation differing from canonical at a map site with >= 2 entries, or a switch between two live checker tasks"},
	"C03": {Race: false, Quick: 800, Thorough: 12000, Procs: 16, XProc: 16, Level: "exploration",
		Rule: "a case is one history of package visits (1..12 quick, 1..40 thorough; permuted/subset/repeated files, permuted declarations) applied to one long-lived CLI program and compared, per file, with what a FRESH program prints for that file alone (reference obtained through the same front-end over an independently loaded twin corpus); every fifth case is an analyzer history; plus the command-line leg: k packages named together / in another order / in two commands / alone, as real processes of the shipped binaries, must print the same lines per package; distinct = distinct hash of (flags, history, schedule) or (binary, packages, order, split, flags); non-trivial = history length >= 2 with >= 1 diagnostic printed after the first visit, or a grouping case with >= 1 diagnostic"},
	"C04": {Race: true, Quick: 360, Thorough: 6000, Procs: 16, XProc: 16, Level: "exploration",
		Rule: "a case is one seeded schedule of the CLI's checkFile (N checker goroutines, semaphore, barrier) or of K parallel analyzer passes, in a -race build whose context switches are invisible to the race detector; distinct = distinct hash of the hand-over sequence (from,to,site) plus workload; non-trivial = at least one switch that suspends a started, unfinished checker task in favour of another checker task"},
	"C05": {Race: false, Quick: 420, Thorough: 6000, Procs: 16, XProc: 12, Level: "exploration",
		Rule: "3 of 4 cases: every selected checker applied in a seeded order (name, reverse, shuffle) to the same tree of one corpus package, with a fingerprint of syntax trees, types.Info, shared context, checker registry and astcast sentinels after every Check, and diagnostics (with fixes) compared with the run-alone reference - the first 2 rounds sweep all registered checkers over all corpus packages; 1 of 4 cases: the real CLI under a non-serial seeded schedule with fingerprints taken at context switches; distinct = distinct hash of (flags, visits, order | hand-over sequence); non-trivial = >= 2 checkers on one tree with >= 1 diagnostic, or >= 1 interleaving switch with >= 1 switch-point fingerprint"},
	"C13": {Race: false, Quick: 1600, Thorough: 12000, Procs: 16, XProc: 16, Level: "exploration",
		Rule: "a case is one example file of one corpus package under (a) a seeded permutation of the positions of its plain functions inside f.Decls with no re-parse, or (b) a seeded source transformation (plain-function chunks permuted, blank lines / padding declarations inserted, unrelated functions appended) re-parsed and re-type-checked in memory; oracles: diagnostics of every selected non-exempt checker equal the untransformed run (line-shift normalised), and the package's own checker still satisfies the maintainers' /*! */ expectations, which travel with their chunk; distinct = distinct (package, file, permutation, paddings, selection); non-trivial = at least one function moved or padding inserted, and at least one diagnostic to preserve"},
	"C18": {Race: false, Quick: 6600 + 1600, Thorough: 6600 + 60000, Procs: 16, XProc: 32, Level: "fault_enumeration",
		Rule: "run indices 0..6599 ENUMERATE the policy table (every single file and every ordered pair of files over 10 file kinds x 6 failOn forms x legacy flag x 5 pattern layouts incl. a pattern matching nothing; default group filter); the remaining cases are sampled: a case is one rule-file scenario on the simulated disk: 1-4 files, each valid / unreadable (EIO, EISDIR, EACCES, vanished after Glob) / torn at a group boundary / torn inside a group / empty / DSL violation / unloadable import, x patterns (paths and globs, spacing, order, no-match) x failOn (subsets, empty entries, unknown values) x legacy failOnError x enable/disable lists over names, tags, #experimental, unknown entries, x 1-2 constructions; even run indices are fault-free, odd ones fault-injecting; distinct = distinct scenario text; non-trivial = a fault fired, an init error is demanded, or a group filter is in play"},
	"C19": {Race: false, Quick: 400, Thorough: 20000, Procs: 16, XProc: 16, Level: "fault_enumeration",
		Rule: "(a) a case is one simulated driver process of the go/analysis analyzer: an injected configuration fault (malformed -go, unknown ruleguard failOn, rules pattern without match, empty selection, unparsable parameter) x 1..6 passes x sequential in a seeded order or parallel under a seeded schedule; (b) a case is one real process of go-critic / gocritic / go-critic-analysis / gocritic-analysis on a generated workspace with a configuration fault (both flag dialects) or a workspace fault (torn write, lost write, flipped identifier, mixed package clauses) at package counts 1 and n; distinct = distinct (fault, flags, pass count, order, schedule | binary, args, workspace); every case injects a fault, so every case is non-trivial"},
}

func die2(format string, args ...any) {
	fmt.Fprintf(os.Stderr, "gcsim: "+format+"\n", args...)
	os.Exit(2)
}

func main() {
	selfTest := len(os.Args) >= 3 && os.Args[1] == "selftest"
	if selfTest {
		os.Args[1] = "check"
	}
	if len(os.Args) < 3 || os.Args[1] != "check" {
		fmt.Fprintln(os.Stderr, "usage: gcsim check <ID> [quick|thorough] [--replay file]")
		os.Exit(2)
	}
	id := os.Args[2]
	tier := os.Getenv("VERIF_TIER")
	replay := ""
	rest := os.Args[3:]
	for i := 0; i < len(rest); i++ {
		switch rest[i] {
		case "quick", "thorough":
			tier = rest[i]
		case "--replay":
			if i+1 < len(rest) {
				replay = rest[i+1]
				i++
			}
		}
	}
	if tier == "" {
		tier = "quick"
	}
	seed := uint64(1)
	if s := os.Getenv("VERIF_SEED"); s != "" {
		v, err := strconv.ParseInt(s, 10, 64)
		if err != nil {
			die2("bad VERIF_SEED %q", s)
		}
		seed = uint64(v)
	}
	pl := plans[id]
	if pl == nil {
		die2("property %s is not claimed by this framework (see MANIFEST.json not_applicable)", id)
	}
	fmt.Printf("gcsim: property=%s tier=%s VERIF_SEED=%d\n", id, tier, seed)

	scratch, err := os.MkdirTemp("", "gcsim-run-")
	if err != nil {
		die2("%v", err)
	}
	cleanupOldBuilds()

	bi, err := build(pl.Race, !pl.Race || true)
	if err != nil {
		os.RemoveAll(scratch)
		die2("build trouble: %v", err)
	}
	fmt.Printf("gcsim: instrumented tree %s in %.1fs: %v\n", bi.TreeHash, bi.BuildS, bi.Counts)

	c := &checkCtx{ID: id, Tier: tier, Seed: seed, Plan: pl, Build: bi, Scratch: scratch}
	var code int
	if selfTest {
		code = c.selftest()
	} else if replay != "" {
		code = c.replay(replay)
	} else {
		code = c.check()
	}
	if os.Getenv("GCSIM_KEEP") != "" {
		fmt.Println("gcsim: scratch kept at", scratch)
	} else {
		os.RemoveAll(scratch)
	}
	os.Exit(code)
}

type checkCtx struct {
	ID      string
	Tier    string
	Seed    uint64
	Plan    *plan
	Build   *buildInfo
	Scratch string
}

func (c *checkCtx) bin() string {
	if c.Plan.Race {
		return c.Build.WorkerRace
	}
	return c.Build.Worker
}

func (c *checkCtx) baseJob() simapi.Job {
	return simapi.Job{Prop: c.ID, Tier: c.Tier, Seed: c.Seed, RepoDir: repoDir(), Race: c.Plan.Race}
}

func cleanupOldBuilds() {
	ms, _ := filepath.Glob(filepath.Join(os.TempDir(), "gcsim-build-*"))
	for _, m := range ms {
		if st, err := os.Stat(m); err == nil && time.Since(st.ModTime()) > 12*time.Hour {
			os.RemoveAll(m)
		}
	}
}

func (c *checkCtx) check() int {
	t0 := time.Now()
	total := c.Plan.Quick
	if c.Tier == "thorough" {
		total = c.Plan.Thorough
	}
	if s := os.Getenv("GCSIM_RUNS"); s != "" {
		total, _ = strconv.Atoi(s)
	}
	os.Chtimes(c.Build.Dir, time.Now(), time.Now())
	go func() { // a long run keeps its build directory fresh, so that no other check removes it as stale
		for {
			time.Sleep(10 * time.Minute)
			os.Chtimes(c.Build.Dir, time.Now(), time.Now())
		}
	}()
	timeout := 45 * time.Minute
	if c.Tier == "thorough" {
		timeout = 5 * time.Hour
	}
	refBin := ""
	if c.Plan.Race {
		refBin = c.Build.Worker
	}
	var bt *batch
	failFast := os.Getenv("GCSIM_FAILFAST") != ""
	if failFast {
		// regression aid (seeded/run_all.sh): the main batch runs in eight slices and stops after the
		// first slice that shows a violation; the other legs are skipped then. Never used by the
		// registered commands.
		bt = &batch{}
		for sl := 0; sl < 8; sl++ {
			lo, hi := total*sl/8, total*(sl+1)/8
			if hi <= lo {
				continue
			}
			part := runBatchRange(c.bin(), refBin, c.baseJob(), lo, hi, c.Plan.Procs, c.Scratch, fmt.Sprintf("main%d", sl), timeout)
			bt.Results = append(bt.Results, part.Results...)
			bt.Procs = append(bt.Procs, part.Procs...)
			bt.Harness = append(bt.Harness, part.Harness...)
			bt.WallS += part.WallS
			bt.Restarts += part.Restarts
			bt.KilledFromOutside += part.KilledFromOutside
			bt.Recycled += part.Recycled
			bt.WorkersN = part.WorkersN
			found := len(part.Harness) > 0
			for _, r := range part.Results {
				if r.Verdict == "violation" {
					found = true
				}
			}
			if found {
				total = hi
				break
			}
		}
	} else {
		bt = runBatch(c.bin(), refBin, c.baseJob(), total, c.Plan.Procs, c.Scratch, "main", timeout)
	}
	fmt.Printf("gcsim: %d runs in %.1fs on %d workers (%d restarts, %d recycled)\n", len(bt.Results), bt.WallS, bt.WorkersN, bt.Restarts, bt.Recycled)
	ffViolation := false
	if failFast {
		for _, r := range bt.Results {
			if r.Verdict == "violation" {
				ffViolation = true
			}
		}
	}
	if len(bt.Harness) > 0 {
		for _, h := range bt.Harness {
			fmt.Fprintln(os.Stderr, "gcsim: HARNESS:", h)
		}
		return 2
	}
	for _, r := range bt.Results {
		if r.Verdict == "harness-error" {
			fmt.Fprintf(os.Stderr, "gcsim: HARNESS: run %d: %v %v\n", r.Index, r.Notes, r.Violations)
			return 2
		}
	}
	if len(bt.Results) != total {
		fmt.Fprintf(os.Stderr, "gcsim: HARNESS: expected %d results, have %d\n", total, len(bt.Results))
		return 2
	}
	if msg := corpusStable(bt.Procs); msg != "" {
		fmt.Fprintln(os.Stderr, "gcsim: HARNESS:", msg)
		return 2
	}
	if c.ID == "C02" && !ffViolation {
		// cross-process leg with the shipped binary as real processes
		if err := buildFrontends(c.Build); err != nil {
			fmt.Fprintln(os.Stderr, "gcsim: build trouble:", err)
			return 2
		}
		targets := corpusTargets()
		reps := 4
		if c.Tier == "thorough" {
			reps = 6
		} else {
			// quick: a seeded third of the corpus, the hand-written packages always
			var sel []repeatCase
			for i, t := range targets {
				if strings.HasPrefix(t.Target, "./corpus/") || strings.HasSuffix(t.Dir, "/oldmod") || (uint64(i)+c.Seed)%3 == 0 {
					sel = append(sel, t)
				}
			}
			targets = sel
		}
		targets = append(targets, multiTargets()...)
		for i := range targets {
			targets[i].Repeats = reps
		}
		t1 := time.Now()
		rr := c.runRepeatCases(targets, feIndexBase)
		fmt.Printf("gcsim: %d commands x %d real processes of the shipped go-critic binary in %.1fs\n", len(targets), reps, time.Since(t1).Seconds())
		bt.Results = append(bt.Results, rr...)
		total += len(rr)
	}
	if c.ID == "C03" && !ffViolation {
		// command-line leg: order and grouping of the packages named on the command line, real processes
		if err := buildFrontends(c.Build); err != nil {
			fmt.Fprintln(os.Stderr, "gcsim: build trouble:", err)
			return 2
		}
		n := 30
		if c.Tier == "thorough" {
			n = 400
		}
		if s := os.Getenv("GCSIM_FE_RUNS"); s != "" {
			n, _ = strconv.Atoi(s)
		}
		cases := append([]groupCase{knownCollisionCase()}, genGroupCases(c.Seed, n)...)
		t1 := time.Now()
		gr := c.runGroupCases(cases, groupIndexBase)
		np := 0
		for _, r := range gr {
			np += int(r.Stats["real_processes"])
		}
		fmt.Printf("gcsim: %d command-line grouping cases (%d real processes of the shipped binaries) in %.1fs\n", len(cases), np, time.Since(t1).Seconds())
		bt.Results = append(bt.Results, gr...)
		total += len(gr)
	}
	if c.ID == "C19" && !ffViolation {
		// second engine: the real front-end binaries on faulted configurations and workspaces
		if err := buildFrontends(c.Build); err != nil {
			fmt.Fprintln(os.Stderr, "gcsim: build trouble:", err)
			return 2
		}
		n := 92
		if c.Tier == "thorough" {
			n = 1200
		}
		if s := os.Getenv("GCSIM_FE_RUNS"); s != "" {
			n, _ = strconv.Atoi(s)
		}
		t1 := time.Now()
		fe := c.runFECases(n, nil)
		fmt.Printf("gcsim: %d front-end cases (%d real processes) in %.1fs\n", n, 2*n, time.Since(t1).Seconds())
		bt.Results = append(bt.Results, fe...)
		total += n
	}

	// same-seed cross-process leg: determinism of the simulator itself, and
	// (for C02) of go-critic across processes
	xp := &xprocResult{}
	if !ffViolation {
		xp = c.crossProcess(bt)
	}
	if xp.harness != "" {
		fmt.Fprintln(os.Stderr, "gcsim: HARNESS:", xp.harness)
		return 2
	}

	// violations
	var reports []report
	byIdentity := map[string]bool{}
	vioRuns := 0
	for _, r := range append(bt.Results, xp.extra...) {
		if r.Verdict != "violation" {
			continue
		}
		vioRuns++
		for _, v := range r.Violations {
			if byIdentity[v.Identity] {
				continue
			}
			byIdentity[v.Identity] = true
			reports = append(reports, report{Run: r, Vio: v})
		}
	}
	known := loadKnown()
	exit := 0
	minimised, unlisted := 0, 0
	for i := range reports {
		rp := &reports[i]
		if kf := known.match(c.ID, rp.Vio); kf != nil {
			fmt.Printf("KNOWN-FINDING: property=%s %s\n", c.ID, kf.What)
			rp.Known = true
			continue
		}
		unlisted++
		if unlisted > 6 {
			exit = 1
			continue // reported in the evidence; the first six get replay files
		}
		if rp.Run.Config != nil && rp.Run.Config.Kind == "frontend-repeat" {
			var rc repeatCase
			json.Unmarshal(rp.Run.Config.Extra, &rc)
			rc.Repeats = 12
			for _, r := range c.runRepeatCases([]repeatCase{rc}, rp.Run.Index) {
				rp.Confirmed = sameViolation(r, rp.Vio)
			}
		} else if rp.Run.Config != nil && rp.Run.Config.Kind == "frontend-grouping" {
			var gc groupCase
			json.Unmarshal(rp.Run.Config.Extra, &gc)
			for _, r := range c.runGroupCases([]groupCase{gc}, rp.Run.Index) {
				rp.Confirmed = sameViolation(r, rp.Vio)
			}
		} else if rp.Run.Config != nil && rp.Run.Config.Kind == "frontend-process" {
			// one real process pair is already minimal; confirm by running it again
			var fc feCase
			json.Unmarshal(rp.Run.Config.Extra, &fc)
			for _, r := range c.runFECases(1, &fc) {
				rp.Confirmed = sameViolation(r, rp.Vio)
			}
		} else if rp.Run.Config != nil {
			minimised++
			c.minimiseAndConfirm(rp, minimised <= 3 && !failFast)
		}
		path := c.writeReplay(rp)
		fmt.Printf("VIOLATION property=%s replay=%s\n", c.ID, path)
		fmt.Printf("  class=%s identity=%s confirmed_by_replay=%v\n  %s\n", rp.Vio.Class, rp.Vio.Identity, rp.Confirmed, short(rp.Vio.Detail, 1500))
		exit = 1
	}
	c.writeEvidence(bt, xp, reports, vioRuns, time.Since(t0).Seconds(), total)
	if exit == 0 {
		fmt.Printf("gcsim: property=%s held on everything explored (%d runs, %.0fs)\n", c.ID, total, time.Since(t0).Seconds())
	}
	return exit
}

type report struct {
	Run       *simapi.RunResult
	Vio       simapi.Violation
	Known     bool
	Confirmed bool
	Min       *simapi.RunConfig
	MinSteps  int
	Path      string
}

// corpusStable checks that every worker process saw the same corpus on disk: run indices
// are drawn against the corpus index, so a package added or edited while a check is
// running makes the same index mean different runs in different processes.
func corpusStable(procs []map[string]any) string {
	first := ""
	for _, p := range procs {
		d, _ := p["corpus_digest"].(string)
		if d == "" {
			continue
		}
		if strings.HasSuffix(d, "+changed-while-running") {
			return "the corpus (checkers/testdata, /verif/sim/corpus, ...) changed on disk while a worker was running; run the check again on a quiet tree"
		}
		if first == "" {
			first = d
		} else if d != first {
			return "worker processes of this check saw different corpora on disk (a file was added or edited while the check was running); run the check again on a quiet tree"
		}
	}
	return ""
}

type xprocResult struct {
	harness   string
	compared  int
	processes int
	extra     []*simapi.RunResult
	mismatch  int
}

// crossProcess re-executes a sample of run indices in fresh processes at
// GOMAXPROCS 1 and 16 and compares the digests of everything observable.
func (c *checkCtx) crossProcess(bt *batch) *xprocResult {
	xr := &xprocResult{}
	n := c.Plan.XProc
	if c.Tier == "thorough" {
		n *= 4
	}
	var idxs []int
	digest := map[int]string{}
	dparts := map[int][]string{}
	for _, r := range bt.Results {
		if r.Digest != "" && r.Verdict == "ok" {
			digest[r.Index] = r.Digest
			dparts[r.Index] = r.DigestParts
		}
	}
	var cands []int
	for i := range digest {
		cands = append(cands, i)
	}
	sort.Ints(cands)
	if len(cands) == 0 {
		return xr
	}
	step := len(cands) / n
	if step < 1 {
		step = 1
	}
	for i := 0; i < len(cands) && len(idxs) < n; i += step {
		idxs = append(idxs, cands[i])
	}
	type res struct {
		gmp int
		wo  *workerOutcome
	}
	gmps := []int{1, 16}
	parts := 6
	if len(idxs) < parts {
		parts = len(idxs)
	}
	ch := make(chan res, len(gmps)*parts)
	launched := 0
	for _, g := range gmps {
		for part := 0; part < parts; part++ {
			var mine []int
			for i := part; i < len(idxs); i += parts {
				mine = append(mine, idxs[i])
			}
			if len(mine) == 0 {
				continue
			}
			launched++
			go func(g, part int, mine []int) {
				job := c.baseJob()
				job.Mode = "runs"
				job.Indices = mine
				tag := fmt.Sprintf("xproc-g%d-p%d", g, part)
				if c.Plan.Race {
					rj := c.baseJob()
					rj.Mode = "ref"
					rj.Indices = mine
					rj.RefPath = filepath.Join(c.Scratch, tag+".ref.json")
					ro := runWorkerR(c.Build.Worker, &rj, c.Scratch, tag+"-ref", g, 40*time.Minute)
					if !ro.Finished {
						ch <- res{g, ro}
						return
					}
					job.RefPath = rj.RefPath
				}
				ch <- res{g, runWorkerR(c.bin(), &job, c.Scratch, tag, g, 40*time.Minute)}
			}(g, part, mine)
		}
	}
	var xprocs []map[string]any
	if len(bt.Procs) > 0 {
		xprocs = append(xprocs, bt.Procs[0])
	}
	defer func() {
		if msg := corpusStable(xprocs); msg != "" {
			xr.harness = msg
		}
	}()
	for k := 0; k < launched; k++ {
		r := <-ch
		xr.processes++
		if r.wo.Proc != nil {
			xprocs = append(xprocs, r.wo.Proc)
		}
		if !r.wo.Finished {
			xr.harness = fmt.Sprintf("cross-process worker (GOMAXPROCS=%d) died: exit %d: %s", r.gmp, r.wo.ExitCode, short(r.wo.Stderr, 1500))
			continue
		}
		for _, rr := range r.wo.Results {
			xr.compared++
			if rr.Digest == digest[rr.Index] && rr.Verdict == "ok" {
				continue
			}
			xr.mismatch++
			if rr.Verdict == "violation" {
				xr.extra = append(xr.extra, rr)
				continue
			}
			if c.ID == "C02" {
				// a diagnostic difference between processes from a source the
				// simulator does not own is still a C02 violation
				rr.Verdict = "violation"
				rr.Violations = []simapi.Violation{{Class: "cross-process-differs", Identity: "cross-process-differs",
					Detail: fmt.Sprintf("run %d: the same seed produced a different observable digest in a fresh process at GOMAXPROCS=%d (%s vs %s); replay is statistical", rr.Index, r.gmp, rr.Digest, digest[rr.Index])}}
				xr.extra = append(xr.extra, rr)
			} else {
				xr.harness = fmt.Sprintf("run %d is not a deterministic function of the seed: digest %s at GOMAXPROCS=%d vs %s in the main batch (parts %v vs %v)", rr.Index, rr.Digest, r.gmp, digest[rr.Index], rr.DigestParts, dparts[rr.Index])
			}
		}
	}
	return xr
}

func (c *checkCtx) writeReplay(rp *report) string {
	dir := filepath.Join(outDir(), "replays")
	os.MkdirAll(dir, 0o755)
	cfg := rp.Run.Config
	if rp.Min != nil {
		cfg = rp.Min
	}
	name := fmt.Sprintf("%s-seed%d-run%d-%s.json", c.ID, c.Seed, rp.Run.Index, sanitize(short(rp.Vio.Identity, 60)))
	path := filepath.Join(dir, name)
	out := map[string]any{"property": c.ID, "seed": c.Seed, "tier": c.Tier, "run_index": rp.Run.Index,
		"violation": rp.Vio, "config": cfg, "confirmed_by_replay": rp.Confirmed, "minimisation_steps": rp.MinSteps,
		"original_config": rp.Run.Config}
	b, _ := json.MarshalIndent(out, "", " ")
	os.WriteFile(path, b, 0o644)
	rp.Path = path
	return path
}

func sanitize(s string) string {
	return strings.Map(func(r rune) rune {
		if r >= 'a' && r <= 'z' || r >= 'A' && r <= 'Z' || r >= '0' && r <= '9' || r == '-' {
			return r
		}
		return '_'
	}, s)
}

// replay re-executes a replay file in a fresh process; exit 1 when the
// recorded violation shows again.
func (c *checkCtx) replay(path string) int {
	b, err := os.ReadFile(path)
	if err != nil {
		die2("%v", err)
	}
	var rf struct {
		Violation simapi.Violation  `json:"violation"`
		Config    *simapi.RunConfig `json:"config"`
		Tier      string            `json:"tier"`
	}
	if err := json.Unmarshal(b, &rf); err != nil || rf.Config == nil {
		die2("bad replay file %s: %v", path, err)
	}
	if rf.Tier == "quick" || rf.Tier == "thorough" {
		c.Tier = rf.Tier // the corpus a run can visit depends on the tier it was generated in
	}
	if rf.Config.Kind == "frontend-repeat" {
		if err := buildFrontends(c.Build); err != nil {
			fmt.Fprintln(os.Stderr, "gcsim: build trouble:", err)
			return 2
		}
		var rc repeatCase
		json.Unmarshal(rf.Config.Extra, &rc)
		rc.Repeats = 24
		for _, r := range c.runRepeatCases([]repeatCase{rc}, 0) {
			for _, v := range r.Violations {
				if v.Class == rf.Violation.Class {
					fmt.Printf("VIOLATION property=%s replay=%s\n  reproduced: class=%s identity=%s\n  %s\n", c.ID, path, v.Class, v.Identity, short(v.Detail, 1500))
					return 1
				}
			}
		}
		fmt.Printf("gcsim: replay of %s (24 processes) did not reproduce class %s on this tree\n", path, rf.Violation.Class)
		return 0
	}
	if rf.Config.Kind == "frontend-grouping" {
		if err := buildFrontends(c.Build); err != nil {
			fmt.Fprintln(os.Stderr, "gcsim: build trouble:", err)
			return 2
		}
		var gc groupCase
		json.Unmarshal(rf.Config.Extra, &gc)
		for _, r := range c.runGroupCases([]groupCase{gc}, 0) {
			for _, v := range r.Violations {
				if v.Class == rf.Violation.Class {
					fmt.Printf("VIOLATION property=%s replay=%s\n  reproduced: class=%s identity=%s\n  %s\n", c.ID, path, v.Class, v.Identity, short(v.Detail, 1500))
					return 1
				}
			}
		}
		fmt.Printf("gcsim: replay of %s did not reproduce class %s on this tree\n", path, rf.Violation.Class)
		return 0
	}
	if rf.Config.Kind == "frontend-process" {
		if err := buildFrontends(c.Build); err != nil {
			fmt.Fprintln(os.Stderr, "gcsim: build trouble:", err)
			return 2
		}
		var fc feCase
		json.Unmarshal(rf.Config.Extra, &fc)
		for _, r := range c.runFECases(1, &fc) {
			for _, v := range r.Violations {
				if v.Class == rf.Violation.Class {
					fmt.Printf("VIOLATION property=%s replay=%s\n  reproduced: class=%s identity=%s\n  %s\n", c.ID, path, v.Class, v.Identity, short(v.Detail, 1500))
					return 1
				}
			}
		}
		fmt.Printf("gcsim: replay of %s did not reproduce class %s on this tree\n", path, rf.Violation.Class)
		return 0
	}
	res, herr := c.execConfigs([]simapi.RunConfig{*rf.Config}, "replay")
	if herr != "" {
		fmt.Fprintln(os.Stderr, "gcsim: HARNESS:", herr)
		return 2
	}
	for _, r := range res {
		for _, v := range r.Violations {
			if v.Class == rf.Violation.Class {
				fmt.Printf("VIOLATION property=%s replay=%s\n  reproduced: class=%s identity=%s\n  %s\n", c.ID, path, v.Class, v.Identity, short(v.Detail, 1500))
				return 1
			}
		}
	}
	fmt.Printf("gcsim: replay of %s did not reproduce class %s on this tree\n", path, rf.Violation.Class)
	return 0
}

// execConfigs runs explicit configurations in one fresh worker process
// (restarting after a run that kills it).
func (c *checkCtx) execConfigs(cfgs []simapi.RunConfig, tag string) ([]*simapi.RunResult, string) {
	var out []*simapi.RunResult
	for i := range cfgs {
		cfgs[i].Index = i
	}
	start := 0
	for attempt := 0; start < len(cfgs); attempt++ {
		job := c.baseJob()
		job.Mode = "replay"
		job.Configs = cfgs[start:]
		wo := runWorker(c.bin(), &job, c.Scratch, fmt.Sprintf("%s-a%d-%d", tag, attempt, time.Now().UnixNano()%1e6), 4, 20*time.Minute)
		out = append(out, wo.Results...)
		if wo.Finished {
			break
		}
		if wo.Crashed == nil {
			return out, fmt.Sprintf("replay worker died outside a run (exit %d): %s", wo.ExitCode, short(wo.Stderr, 1500))
		}
		idx := *wo.Crashed
		if wo.Killed {
			if attempt < 3 {
				start = idx // again
				continue
			}
			return out, fmt.Sprintf("replay worker killed by SIGKILL repeatedly without a word (out of memory?)")
		}
		if wo.ExitCode == 75 || wo.ExitCode == 73 {
			return out, fmt.Sprintf("harness trouble in replay (exit %d): %s", wo.ExitCode, short(wo.Stderr, 1500))
		}
		if wo.ExitCode != 71 && wo.ExitCode != 72 {
			out = append(out, crashResult(c.ID, idx, wo))
		}
		start = idx + 1
	}
	return out, ""
}
