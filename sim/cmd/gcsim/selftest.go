package main

import (
	"encoding/json"
	"fmt"
	"os"
	"path/filepath"
	"strconv"
	"strings"
	"sync"
	"time"
)

func contains(xs []int, v int) bool {
	for _, x := range xs {
		if x == v {
			return true
		}
	}
	return false
}

// selftest proves that a run is a pure function of (seed, index, code): the
// same run indices are executed in 30 fresh processes (10 each at GOMAXPROCS
// 1, 4 and 16) and the digests of everything observable are compared.
func (c *checkCtx) selftest() int {
	idxs := []int{0, 1, 2, 3, 5, 7, 11, 13, 17, 19, 23, 29}
	if s := os.Getenv("GCSIM_SELFTEST_IDXS"); s != "" {
		idxs = nil
		for _, f := range strings.Split(s, ",") {
			if v, err := strconv.Atoi(strings.TrimSpace(f)); err == nil {
				idxs = append(idxs, v)
			}
		}
	}
	total := c.Plan.Quick
	if c.Tier == "thorough" {
		total = c.Plan.Thorough
	}
	type key struct{ g, k int }
	var mu sync.Mutex
	digests := map[int]map[string]int{}
	var wg sync.WaitGroup
	sem := make(chan struct{}, 15)
	fail := ""
	t0 := time.Now()
	for _, g := range []int{1, 4, 16} {
		for k := 0; k < 10; k++ {
			wg.Add(1)
			sem <- struct{}{}
			go func(g, k int) {
				defer wg.Done()
				defer func() { <-sem }()
				job := c.baseJob()
				job.Mode = "runs"
				// Every process executes the same run indices, but in a rotated order and
				// after three decoy runs of its own: a run must be a function of (seed,
				// index) alone, whatever the process loaded and executed before it.
				var mine []int
				for d := 0; d < 3; d++ {
					mine = append(mine, (101*k+37*d+13*g)%total)
				}
				for i := range idxs {
					mine = append(mine, idxs[(i+k)%len(idxs)])
				}
				job.Indices = mine
				tag := fmt.Sprintf("self-g%d-k%d", g, k)
				if c.Plan.Race {
					rj := c.baseJob()
					rj.Mode = "ref"
					rj.Indices = mine
					rj.RefPath = filepath.Join(c.Scratch, tag+".ref.json")
					if ro := runWorkerR(c.Build.Worker, &rj, c.Scratch, tag+"-ref", g, 30*time.Minute); !ro.Finished {
						mu.Lock()
						fail = "reference worker died: " + short(ro.Stderr, 500)
						mu.Unlock()
						return
					}
					job.RefPath = rj.RefPath
				}
				wo := runWorkerR(c.bin(), &job, c.Scratch, tag, g, 30*time.Minute)
				mu.Lock()
				defer mu.Unlock()
				if !wo.Finished {
					fail = fmt.Sprintf("worker died (exit %d): %s", wo.ExitCode, short(wo.Stderr, 500))
					return
				}
				for _, r := range wo.Results {
					if !contains(idxs, r.Index) {
						continue // a decoy
					}
					if digests[r.Index] == nil {
						digests[r.Index] = map[string]int{}
					}
					digests[r.Index][r.Verdict+":"+r.Digest+" "+strings.Join(r.DigestParts, " ")]++
				}
			}(g, k)
		}
	}
	wg.Wait()
	if fail != "" {
		fmt.Fprintln(os.Stderr, "gcsim: HARNESS:", fail)
		return 2
	}
	bad := 0
	for _, i := range idxs {
		if len(digests[i]) != 1 {
			bad++
			fmt.Printf("gcsim: selftest: run %d produced %d different digests over 30 processes: %v\n", i, len(digests[i]), digests[i])
		}
	}
	out := map[string]any{"property": c.ID, "seed": c.Seed, "run_indices": idxs, "processes": 30, "gomaxprocs": []int{1, 4, 16},
		"diverging_runs": bad, "wall_s": time.Since(t0).Seconds(), "tree": c.Build.TreeHash}
	os.MkdirAll(filepath.Join(outDir(), "selftest"), 0o755)
	b, _ := json.MarshalIndent(out, "", " ")
	os.WriteFile(filepath.Join(outDir(), "selftest", c.ID+".json"), b, 0o644)
	fmt.Printf("gcsim: selftest %s: %d run indices x 30 processes, %d diverging (%.0fs)\n", c.ID, len(idxs), bad, time.Since(t0).Seconds())
	if bad > 0 {
		return 2
	}
	return 0
}
