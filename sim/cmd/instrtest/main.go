package main

import (
	"fmt"
	"os"

	"verif.local/gcsim/instr"
)

func main() {
	out := os.Args[1]
	full := instr.Options{Yields: true, MapSeam: true, FSSeam: true}
	mainOpt := full
	mainOpt.RenameMain = true
	res, err := instr.Instrument("/repo", out, []instr.PackageSpec{
		{"./linter", full}, {"./checkers", full}, {"./checkers/internal/astwalk", full},
		{"./checkers/internal/lintutil", full}, {"./checkers/analyzer", full}, {"./cmd/go-critic", mainOpt},
	}, os.Environ())
	if err != nil {
		fmt.Fprintln(os.Stderr, err)
		os.Exit(2)
	}
	p, _ := res.WriteOverlay(out, nil)
	fmt.Println(p, res.Counts, res.Packages)
}
