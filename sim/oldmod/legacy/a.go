// Package legacy lives in a module that declares an older Go version (go 1.16):
// version-gated suggestions and old-style literals meet a two-part language version.
package legacy

import (
	"os"
	"strings"
	"time"
)

func perms(name string) error {
	if err := os.MkdirAll(name, 0755); err != nil {
		return err
	}
	mask := 0777 &^ 022
	_ = mask
	return os.Chmod(name, 0644)
}

func millis(t time.Time) (int64, int64) {
	return t.UnixNano() / 1e6, t.UnixNano() / 1000
}

func cut(s string) (string, string) {
	idx := strings.Index(s, "=")
	if idx == -1 {
		return s, ""
	}
	return s[:idx], s[idx+1:]
}
