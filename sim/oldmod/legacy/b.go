package legacy

import (
	"sync"
	"time"
)

var once sync.Once

func setup() {
	once.Do(func() {
		_ = time.Unix(0, 0).UnixNano() / 1e6
	})
}

func modes() []int {
	return []int{0600, 0o600, 010, 0x10}
}
