module verif.local/oldmod

go 1.16
