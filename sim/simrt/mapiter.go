package simrt

import (
	"fmt"
	"go/token"
	"iter"
	"reflect"
	"sort"
)

// Map-order seam. `for k, v := range m` in instrumented code becomes
// `for k, v := range simrt.MapIter(site, m)`; the iteration order is then a
// decision of the simulator (canonical, reversed, or a seeded shuffle) instead
// of the Go runtime's per-iteration random start.

// Map policies.
const (
	MapNative    = 0 // seam off: the Go runtime decides (not replayable)
	MapCanonical = 1
	MapReversed  = 2
	MapShuffle   = 3
)

// MapStats counts what the seam actually did during a run.
type MapStats struct {
	Iterations   int64  `json:"iterations"`   // ranges executed through the seam
	Multi        int64  `json:"multi"`        // ... over maps with >= 2 entries
	Permuted     int64  `json:"permuted"`     // ... whose applied order differed from canonical
	Uncontrolled int64  `json:"uncontrolled"` // ... with >= 2 entries whose keys cannot be canonically ordered
	Ties         int64  `json:"ties"`         // ... with >= 2 entries having equal sort keys
	Hash         uint64 `json:"hash"`         // FNV over (site, n, policy, permutation)
}

var (
	mapPolicy int
	mapRand   Rand
	mapStats  MapStats
	// per-site bookkeeping for the evidence
	mapSiteSeen  [4096]uint32
	mapSiteMulti [4096]uint32
	mapSiteUnctl [4096]uint32
)

// SetMapPolicy selects the policy and (for MapShuffle) the PRNG stream.
//
//go:norace
func SetMapPolicy(policy int, seed uint64) {
	mapPolicy = policy
	mapRand = Rand{s: mix64(seed ^ 0x6d6170)}
	mapStats = MapStats{Hash: 14695981039346656037}
}

// TakeMapStats returns the counters accumulated since SetMapPolicy.
//
//go:norace
func TakeMapStats() MapStats { return mapStats }

// MapSiteTable returns per-site counters (since process start).
func MapSiteTable() (seen, multi, unctl map[int]uint32) {
	seen, multi, unctl = map[int]uint32{}, map[int]uint32{}, map[int]uint32{}
	for i := range mapSiteSeen {
		if mapSiteSeen[i] != 0 {
			seen[i] = mapSiteSeen[i]
		}
		if mapSiteMulti[i] != 0 {
			multi[i] = mapSiteMulti[i]
		}
		if mapSiteUnctl[i] != 0 {
			unctl[i] = mapSiteUnctl[i]
		}
	}
	return
}

//go:norace
func mapPolicyNow() int { return mapPolicy }

//go:norace
func mapRandIntn(n int) int { return mapRand.Intn(n) }

//go:norace
func mapNote(site int32, n int, permuted, unctl, ties bool, ph uint64) {
	mapStats.Iterations++
	s := int(site) & 4095
	mapSiteSeen[s]++
	if n >= 2 {
		mapStats.Multi++
		mapSiteMulti[s]++
	}
	if permuted {
		mapStats.Permuted++
	}
	if unctl {
		mapStats.Uncontrolled++
		mapSiteUnctl[s]++
	}
	if ties {
		mapStats.Ties++
	}
	h := mapStats.Hash
	h = (h ^ uint64(uint32(site))) * 1099511628211
	h = (h ^ uint64(n)) * 1099511628211
	h = (h ^ ph) * 1099511628211
	mapStats.Hash = h
}

type sortKey struct {
	class int // 0 bool/int, 1 uint, 2 float, 3 string, 4 pos
	i     int64
	u     uint64
	f     float64
	s     string
}

func lessKey(a, b sortKey) bool {
	if a.class != b.class {
		return a.class < b.class
	}
	switch a.class {
	case 0, 4:
		if a.i != b.i {
			return a.i < b.i
		}
	case 1:
		if a.u != b.u {
			return a.u < b.u
		}
	case 2:
		if a.f != b.f {
			return a.f < b.f
		}
	}
	return a.s < b.s
}

func eqKey(a, b sortKey) bool { return !lessKey(a, b) && !lessKey(b, a) }

func plainType(t reflect.Type) bool {
	switch t.Kind() {
	case reflect.Bool, reflect.Int, reflect.Int8, reflect.Int16, reflect.Int32, reflect.Int64,
		reflect.Uint, reflect.Uint8, reflect.Uint16, reflect.Uint32, reflect.Uint64, reflect.Uintptr,
		reflect.Float32, reflect.Float64, reflect.Complex64, reflect.Complex128, reflect.String:
		return true
	case reflect.Array:
		return plainType(t.Elem())
	case reflect.Struct:
		for i := 0; i < t.NumField(); i++ {
			if !plainType(t.Field(i).Type) {
				return false
			}
		}
		return true
	}
	return false
}

func keyOf(k any) (sk sortKey, ok bool) {
	defer func() {
		if recover() != nil {
			ok = false
		}
	}()
	switch x := k.(type) {
	case string:
		return sortKey{class: 3, s: x}, true
	case int:
		return sortKey{class: 0, i: int64(x)}, true
	case bool:
		if x {
			return sortKey{class: 0, i: 1}, true
		}
		return sortKey{class: 0}, true
	}
	if p, isPos := k.(interface{ Pos() token.Pos }); isPos {
		sk = sortKey{class: 4, i: int64(p.Pos())}
		if s, isStr := k.(fmt.Stringer); isStr {
			sk.s = s.String()
		} else {
			sk.s = reflect.TypeOf(k).String()
		}
		return sk, true
	}
	if s, isStr := k.(fmt.Stringer); isStr {
		return sortKey{class: 3, s: s.String()}, true
	}
	rv := reflect.ValueOf(k)
	switch rv.Kind() {
	case reflect.Bool:
		if rv.Bool() {
			return sortKey{class: 0, i: 1}, true
		}
		return sortKey{class: 0}, true
	case reflect.Int, reflect.Int8, reflect.Int16, reflect.Int32, reflect.Int64:
		return sortKey{class: 0, i: rv.Int()}, true
	case reflect.Uint, reflect.Uint8, reflect.Uint16, reflect.Uint32, reflect.Uint64, reflect.Uintptr:
		return sortKey{class: 1, u: rv.Uint()}, true
	case reflect.Float32, reflect.Float64:
		f := rv.Float()
		if f != f {
			return sk, false
		}
		return sortKey{class: 2, f: f}, true
	case reflect.String:
		return sortKey{class: 3, s: rv.String()}, true
	case reflect.Struct, reflect.Array, reflect.Complex64, reflect.Complex128:
		if plainType(rv.Type()) {
			return sortKey{class: 3, s: fmt.Sprintf("%#v", k)}, true
		}
	}
	return sk, false
}

// orderedKeys returns the keys of m in the order the current policy dictates.
func orderedKeys[K comparable, V any](site int32, m map[K]V, policy int) []K {
	n := len(m)
	keys := make([]K, 0, n)
	for k := range m {
		keys = append(keys, k)
	}
	if n < 2 {
		mapNote(site, n, false, false, false, 0)
		return keys
	}
	sks := make([]sortKey, n)
	controlled := true
	for i, k := range keys {
		sk, ok := keyOf(any(k))
		if !ok {
			controlled = false
			break
		}
		sks[i] = sk
	}
	if !controlled {
		mapNote(site, n, false, true, false, 0)
		return keys // native order: not owned by the simulator, counted
	}
	idx := make([]int, n)
	for i := range idx {
		idx[i] = i
	}
	sort.SliceStable(idx, func(a, b int) bool { return lessKey(sks[idx[a]], sks[idx[b]]) })
	ties := false
	for i := 1; i < n; i++ {
		if eqKey(sks[idx[i-1]], sks[idx[i]]) {
			ties = true
			break
		}
	}
	permuted := false
	ph := uint64(policy)
	switch policy {
	case MapReversed:
		for i, j := 0, n-1; i < j; i, j = i+1, j-1 {
			idx[i], idx[j] = idx[j], idx[i]
		}
		permuted = true
	case MapShuffle:
		for i := n - 1; i > 0; i-- {
			j := mapRandIntn(i + 1)
			if i != j {
				permuted = true
			}
			idx[i], idx[j] = idx[j], idx[i]
			ph = (ph ^ uint64(j)) * 1099511628211
		}
	}
	out := make([]K, n)
	for i, j := range idx {
		out[i] = keys[j]
	}
	mapNote(site, n, permuted, false, ties, ph)
	return out
}

// MapIter is the replacement for ranging over a map.
func MapIter[K comparable, V any](site int32, m map[K]V) iter.Seq2[K, V] {
	return func(yield func(K, V) bool) {
		policy := mapPolicyNow()
		if policy == MapNative {
			for k, v := range m {
				if !yield(k, v) {
					return
				}
			}
			return
		}
		for _, k := range orderedKeys(site, m, policy) {
			v, ok := m[k]
			if !ok {
				continue // deleted during the iteration
			}
			if !yield(k, v) {
				return
			}
		}
	}
}

// MapKeys is the pre-1.23 form used for dependencies: the keys in policy order.
func MapKeys[K comparable, V any](site int32, m map[K]V) []K {
	policy := mapPolicyNow()
	if policy == MapNative {
		keys := make([]K, 0, len(m))
		for k := range m {
			keys = append(keys, k)
		}
		return keys
	}
	return orderedKeys(site, m, policy)
}
