package simrt

import (
	"fmt"
	"log"
	"os"
)

// Seams of the front-end program (package main of cmd/go-critic), spliced in by
// the instrumenter so that the driver can execute the REAL entry point of the
// check sub-command - every step of it, in the order the working tree has them -
// with only three things intercepted: the call into the package loader, process
// exit, and two function entries the driver wants to be told about.

// LoaderHooks: a function of the exact type of the loader being called
// (pkgload.LoadPackages or packages.Load) replaces it at its call sites.
var LoaderHooks []any

// LoadSeam wraps a reference to a package-loading function.
func LoadSeam[F any](f F) F {
	for _, h := range LoaderHooks {
		if hf, ok := h.(F); ok {
			return hf
		}
	}
	if len(LoaderHooks) > 0 && LoaderMismatch != nil {
		LoaderMismatch(fmt.Sprintf("%T", f))
	}
	return f
}

// LoaderMismatch is told when a loader of an unexpected type is called while a hook is installed.
var LoaderMismatch func(typ string)

// ExitPanic is what Exit panics with while an ExitHook is installed.
type ExitPanic struct {
	Code  int
	Fatal string // message of a log.Fatal* call, "" for a plain os.Exit
}

// ExitHook != nil: Exit and Fatal* unwind to the driver instead of ending the process.
var ExitHook func(code int, fatal string)

// Exit replaces os.Exit in package main.
func Exit(code int) {
	if ExitHook != nil {
		ExitHook(code, "")
		panic(ExitPanic{Code: code})
	}
	os.Exit(code)
}

func fatal(msg string) {
	if ExitHook != nil {
		log.Print(msg) // what log.Fatal* prints
		ExitHook(1, msg)
		panic(ExitPanic{Code: 1, Fatal: msg})
	}
	log.Fatal(msg)
}

// Fatalf, Fatal and Fatalln replace the log functions of the same names in package main.
func Fatalf(format string, args ...any) { fatal(fmt.Sprintf(format, args...)) }
func Fatal(args ...any)                 { fatal(fmt.Sprint(args...)) }
func Fatalln(args ...any)               { fatal(fmt.Sprintln(args...)) }

// Site hooks: the driver can ask to be called when up to four given yield sites
// (function entries) are reached - before the simulator decides anything there,
// and whether or not the scheduler is active.
var (
	hookSite [4]int32
	hookFn   [4]func()
	hookN    int
)

// ClearSiteHooks removes all site hooks.
//
//go:norace
func ClearSiteHooks() { hookN = 0 }

// OnSite registers fn for a yield site.
//
//go:norace
func OnSite(site int32, fn func()) {
	if hookN < len(hookSite) {
		hookSite[hookN], hookFn[hookN] = site, fn
		hookN++
	}
}

//go:norace
func siteHook(site int32) {
	for i := 0; i < hookN; i++ {
		if hookSite[i] == site {
			hookFn[i]()
		}
	}
}

// Snap remembers the value a variable has now (a shallow copy) and returns the function
// that puts it back: the generated reset of the analyzer package's run state restores what
// the package looked like when main started.
func Snap[T any](p *T) func() {
	saved := *p
	return func() { *p = saved }
}

// Zero puts a variable back to its zero value (used by the generated reset of the
// analyzer package's run state between two simulated driver processes).
func Zero[T any](p *T) {
	var z T
	*p = z
}
