package simrt

import (
	"os"
	"path/filepath"
	"sort"
	"strings"
	"syscall"
)

// Simulated disk for rule files. go-critic's own calls to os.ReadFile and
// filepath.Glob are rewritten to FSReadFile / FSGlob; paths under FSPrefix are
// served from the mounted in-memory tree (with its fault plan), every other
// path goes to the real file system.

const FSPrefix = "/gcsimfs/"

// Fault kinds for a read.
const (
	FaultNone     = ""
	FaultEIO      = "eio"      // read fails with EIO
	FaultEISDIR   = "eisdir"   // path is a directory
	FaultVanished = "vanished" // matched by Glob, gone at ReadFile (ENOENT)
	FaultEACCES   = "eacces"
	FaultShort    = "short" // read returns a prefix of the content (torn file), no error
	FaultEmpty    = "empty" // read returns no bytes, no error
)

// SimFile is one file of the simulated disk.
type SimFile struct {
	Data []byte `json:"-"`
	// Faults[i] is applied to the i-th read of this file; reads beyond the
	// list succeed.
	Faults []SimFault `json:"faults,omitempty"`
	reads  int
}

// SimFault is one planned fault.
type SimFault struct {
	Kind   string `json:"kind"`
	Offset int    `json:"offset,omitempty"` // for short reads
}

// FiredFault records a fault that actually happened.
type FiredFault struct {
	Path string `json:"path"`
	Kind string `json:"kind"`
	Read int    `json:"read"`
}

// SimFS is the in-memory tree.
type SimFS struct {
	Files map[string]*SimFile
}

var (
	mounted  *SimFS
	fired    [256]FiredFault
	nfired   int
	fsReads  int
	fsGlobs  int
	globMiss int
)

// Mount installs a simulated disk (nil unmounts).
//
//go:norace
func Mount(fs *SimFS) {
	mounted = fs
	nfired, fsReads, fsGlobs, globMiss = 0, 0, 0, 0
}

//go:norace
func mountedFS() *SimFS { return mounted }

// FSCounters returns reads, globs, globs without match and the fired faults since Mount.
func FSCounters() (reads, globs, misses int, faults []FiredFault) {
	return fsReads, fsGlobs, globMiss, append([]FiredFault(nil), fired[:nfired]...)
}

//go:norace
func nextFault(path string, f *SimFile) (SimFault, int) {
	fsReads++
	i := f.reads
	f.reads++
	if i < len(f.Faults) {
		ft := f.Faults[i]
		if ft.Kind != FaultNone && nfired < len(fired) {
			fired[nfired] = FiredFault{Path: path, Kind: ft.Kind, Read: i}
			nfired++
		}
		return ft, i
	}
	return SimFault{}, i
}

//go:norace
func noteGlob(miss bool) {
	fsGlobs++
	if miss {
		globMiss++
	}
}

// FSReadFile replaces os.ReadFile.
func FSReadFile(name string) ([]byte, error) {
	fs := mountedFS()
	if fs == nil || !strings.HasPrefix(name, FSPrefix) {
		return os.ReadFile(name)
	}
	f, ok := fs.Files[name]
	if !ok {
		return nil, &os.PathError{Op: "open", Path: name, Err: syscall.ENOENT}
	}
	ft, _ := nextFault(name, f)
	switch ft.Kind {
	case FaultEIO:
		return nil, &os.PathError{Op: "read", Path: name, Err: syscall.EIO}
	case FaultEISDIR:
		return nil, &os.PathError{Op: "read", Path: name, Err: syscall.EISDIR}
	case FaultVanished:
		return nil, &os.PathError{Op: "open", Path: name, Err: syscall.ENOENT}
	case FaultEACCES:
		return nil, &os.PathError{Op: "open", Path: name, Err: syscall.EACCES}
	case FaultEmpty:
		return []byte{}, nil
	case FaultShort:
		n := ft.Offset
		if n > len(f.Data) {
			n = len(f.Data)
		}
		return append([]byte(nil), f.Data[:n]...), nil
	}
	return append([]byte(nil), f.Data...), nil
}

// FSGlob replaces filepath.Glob.
func FSGlob(pattern string) ([]string, error) {
	fs := mountedFS()
	if fs == nil || !strings.HasPrefix(pattern, FSPrefix) {
		return filepath.Glob(pattern)
	}
	if _, err := filepath.Match(pattern, ""); err != nil {
		return nil, err
	}
	var out []string
	for p := range fs.Files {
		if ok, _ := filepath.Match(pattern, p); ok {
			out = append(out, p)
		}
	}
	sort.Strings(out)
	noteGlob(len(out) == 0)
	return out, nil
}

// AnalyzerReset is installed by the overlay shim of checkers/analyzer: it puts
// the analyzer's process-wide cache back to its initial state between
// simulated driver processes.
var AnalyzerReset func()
