package simrt

import (
	"math"
	"reflect"
	"sync"
	"syscall"
	"unsafe"
)

// ---------------------------------------------------------------------------
// Cooperative scheduler.
//
// Real goroutines, exactly one of which runs ("holds the baton") while the
// simulator is active. Every other task is parked in a raw read(2) on its own
// pipe. The hand-over is done with raw SYS_WRITE/SYS_READ issued from
// //go:norace functions, so ThreadSanitizer's vector clocks are not touched by
// a context switch: the race detector judges a fully serialised, exactly
// repeatable execution using only the analysed program's own synchronisation.
// ---------------------------------------------------------------------------

const (
	MaxSlots = 4096
	maxWait  = 8 // communication cases of one select

	stFree     = 0
	stEmbryo   = 1 // Spawn() done, `go` statement not yet executed
	stRunnable = 2
	stBlocked  = 3
)

// Strategy kinds.
const (
	StratPrio     = 0 // priority based: serial variants and PCT
	StratRW       = 1 // random walk: switch at geometric gaps to a uniformly drawn runnable task
	StratExplicit = 2 // replay of an explicit decision list
)

// Priority rules for StratPrio.
const (
	PrioMainFirst    = 0 // main highest, workers in spawn order
	PrioWorkersFirst = 1 // main lowest, workers in spawn order
	PrioReverse      = 2 // main highest, workers in reverse spawn order
	PrioRandom       = 3 // every task gets a pseudo-random priority (PCT)
	PrioRandomMainLo = 4 // random worker priorities, main lowest
	PrioRandomMainHi = 5 // main highest (it spawns everything it can first), workers in random order
)

// Reasons recorded with each decision.
const (
	RYield   = 1 // voluntary (change point / random-walk point / explicit entry)
	RSpawn   = 2
	RBlock   = 3
	RUnblock = 4
	REnd     = 5
)

// Abort kinds.
const (
	AbortDeadlock = 1
	AbortBudget   = 2
	AbortInternal = 3
)

// Decision is one scheduling decision: at logical time Step the scheduler
// chose task To (a task id, in spawn order). A decision with To == the running
// task is a "stay".
type Decision struct {
	Step   int64 `json:"s"`
	To     int32 `json:"t"`
	Reason int8  `json:"r"`
	Site   int32 `json:"y"`
	From   int32 `json:"f"`
	G      int64 `json:"g,omitempty"`  // debugging: goroutine that took the decision
	Slot   int32 `json:"fs,omitempty"` // debugging: its slot
	ToSlot int32 `json:"ts,omitempty"`
}

// DebugGID, when set, is called for every recorded decision (debugging only).
var DebugGID func() int64

// SchedConfig fully determines a schedule (together with the code).
type SchedConfig struct {
	Strategy     int        `json:"strategy"`
	PrioRule     int        `json:"prio_rule"`
	PrioSeed     uint64     `json:"prio_seed"`
	ChangePoints []int64    `json:"change_points,omitempty"` // PCT: steps at which the running task drops to lowest priority
	RWSeed       uint64     `json:"rw_seed,omitempty"`
	RWMeanGap    int64      `json:"rw_mean_gap,omitempty"`
	Explicit     []Decision `json:"explicit,omitempty"`
	StepBudget   int64      `json:"step_budget"`
	// ProbeEvery > 0 calls ProbeHook every that many steps (0 = only at hand-overs when ProbeAtSwitch).
	ProbeEvery    int64 `json:"probe_every,omitempty"`
	ProbeAtSwitch bool  `json:"probe_at_switch,omitempty"`
}

// SchedStats is what a run reports about the schedule it executed.
type SchedStats struct {
	Steps        int64  `json:"steps"`
	Decisions    int    `json:"decisions"`
	Handovers    int64  `json:"handovers"`
	Interleaved  int64  `json:"interleaved_switches"` // hand-overs that left >= 2 started, unfinished non-main tasks
	Tasks        int32  `json:"tasks"`
	MaxLive      int32  `json:"max_live"`
	BlockedTimes int64  `json:"blocked_times"`
	SemaFull     int64  `json:"sema_full"` // a Send found its channel full
	RetryRounds  int64  `json:"retry_rounds,omitempty"`
	Rendezvous   int64  `json:"rendezvous,omitempty"` // unbuffered channel hand-offs
	AtomicPoints int64  `json:"atomic_points,omitempty"`
	SlotPressure int64  `json:"slot_pressure,omitempty"` // spawns that had to wait for a task slot
	Hash         uint64 `json:"hash"`                    // FNV over (from,to,site) of every hand-over
	Truncated    bool   `json:"decisions_truncated,omitempty"`
	Abort        int    `json:"abort,omitempty"`
}

var (
	active    bool
	steps     int64
	nextSw    int64
	budget    int64
	curSlot   int32
	nextTID   int32
	slotState [MaxSlots]int32
	slotTID   [MaxSlots]int32
	slotPrio  [MaxSlots]int64
	slotBegun [MaxSlots]bool
	slotOwner [MaxSlots]int32 // spawning slot of an embryo
	pipeR     [MaxSlots]int
	pipeW     [MaxSlots]int
	pipeOK    [MaxSlots]bool
	noPreempt int32
	liveTasks int32
	hiSlot    int32 // slots [0,hiSlot) have been used in this run

	strat      int
	prioRule   int
	prioSeed   uint64
	cps        []int64
	cpIdx      int
	lowPrio    int64
	rwRand     Rand
	rwMeanGap  int64
	exp        []Decision
	expIdx     int
	probeEvery int64
	probeAtSw  bool
	nextProbe  int64

	decisions []Decision
	ndec      int
	stats     SchedStats

	// channel rendezvous registry (unbuffered channels): what a blocked task waits for
	slotWaitCh      [MaxSlots][maxWait]uintptr // what a blocked task waits for (a select waits for several)
	slotWaitDir     [MaxSlots][maxWait]int8
	slotWaitN       [MaxSlots]int32
	slotWaitSeq     [MaxSlots]int64
	slotCommit      [MaxSlots]int32 // -1, or the index of the wait entry a partner committed to
	waitSeq         int64
	selRand         Rand // choice among the ready cases of a select
	atomicDemotions int
	slotPressure    bool
	atomicSeen      int64
	sandwichSlot    int32 = -1
	sandwichLeft    int
	highPrio        int64
	// consecutive block() calls since the last event that can unblock somebody
	sinceProgress int64

	// wait-group shadow counters (fixed table, pointer keyed)
	wgKeys [64]uintptr
	wgCnt  [64]int64

	// Hooks, set by the driver before Start.
	OnAbort   func(kind int, st SchedStats) // must not return
	ProbeHook func(step int64, tid int32)   // called with pre-emption disabled

	siteHits []uint32
)

func init() {
	decisions = make([]Decision, 1<<20)
	siteHits = make([]uint32, 1<<16)
}

// Active reports whether a simulation is running.
//
//go:norace
func Active() bool { return active }

// Start switches the simulator on. The calling goroutine becomes task 0.
//
//go:norace
func Start(cfg *SchedConfig) {
	if active {
		panic("simrt: Start while active")
	}
	for i := range slotState {
		slotState[i] = stFree
		slotBegun[i] = false
		slotWaitN[i] = 0
		slotCommit[i] = -1
	}
	selRand = Rand{s: mix64(cfg.PrioSeed ^ cfg.RWSeed*0x9e3779b97f4a7c15 ^ 0x73656c656374)}
	waitSeq, sinceProgress, atomicDemotions = 0, 0, 0
	slotPressure = false
	sandwichSlot, sandwichLeft, highPrio = -1, 0, math.MaxInt64/2+1
	egReset()
	hiSlot = 1
	for i := range wgKeys {
		wgKeys[i] = 0
		wgCnt[i] = 0
	}
	steps, nextTID, noPreempt, liveTasks = 0, 0, 0, 0
	ndec = 0
	stats = SchedStats{Hash: 14695981039346656037}
	strat = cfg.Strategy
	prioRule = cfg.PrioRule
	prioSeed = cfg.PrioSeed
	cps = cfg.ChangePoints
	cpIdx = 0
	lowPrio = math.MinInt64 / 2
	rwRand = Rand{s: mix64(cfg.RWSeed)}
	rwMeanGap = cfg.RWMeanGap
	if rwMeanGap <= 0 {
		rwMeanGap = 1000
	}
	exp = cfg.Explicit
	expIdx = 0
	budget = cfg.StepBudget
	if budget <= 0 {
		budget = math.MaxInt64
	}
	probeEvery = cfg.ProbeEvery
	probeAtSw = cfg.ProbeAtSwitch
	nextProbe = math.MaxInt64
	if probeEvery > 0 {
		nextProbe = probeEvery
	}

	// task 0 = caller
	curSlot = 0
	slotState[0] = stRunnable
	slotTID[0] = 0
	slotBegun[0] = true
	slotPrio[0] = prioFor(0)
	nextTID = 1
	liveTasks = 1
	stats.Tasks = 1
	stats.MaxLive = 1
	ensurePipe(0)
	computeNextSw()
	active = true
}

// Stop switches the simulator off and returns what happened. Must be called by
// task 0 after every other task has ended.
//
//go:norace
func Stop() SchedStats {
	if !active {
		panic("simrt: Stop while inactive")
	}
	if liveTasks != 1 || slotTID[curSlot] != 0 {
		panic("simrt: Stop with live tasks (call Drain first)")
	}
	active = false
	stats.Steps = steps
	stats.Decisions = ndec
	return stats
}

// Drain lets every other task run to its end. The program under test may
// legitimately leave goroutines behind (go-critic's workers are still in
// their deferred function when the barrier opens); they are part of the
// simulation until they end. Called by task 0 before Stop.
//
//go:norace
func Drain() {
	if !active {
		return
	}
	for liveTasks > 1 {
		block(-20)
	}
}

// LiveTasks returns the number of tasks that have not ended (task 0 included).
//
//go:norace
func LiveTasks() int32 { return liveTasks }

// Decisions returns a copy of the decision list of the last run.
func Decisions() []Decision {
	out := make([]Decision, ndec)
	copy(out, decisions[:ndec])
	return out
}

// Steps returns the logical clock.
//
//go:norace
func Steps() int64 { return steps }

// CurrentTask returns the id of the running task.
//
//go:norace
func CurrentTask() int32 {
	if !active {
		return -1
	}
	return slotTID[curSlot]
}

// SiteHits returns how many distinct yield sites were executed since process start.
func SiteHits() (distinct int, total uint64) {
	for _, h := range siteHits {
		if h != 0 {
			distinct++
			total += uint64(h)
		}
	}
	return
}

//go:norace
func prioFor(tid int32) int64 {
	switch prioRule {
	case PrioMainFirst:
		return -int64(tid)
	case PrioWorkersFirst:
		if tid == 0 {
			return math.MinInt64/2 + 1
		}
		return -int64(tid)
	case PrioReverse:
		if tid == 0 {
			return math.MaxInt64 / 2
		}
		return int64(tid)
	case PrioRandomMainHi:
		if tid == 0 {
			return math.MaxInt64 / 2
		}
		return int64(mix64(prioSeed^uint64(tid)*0x9e3779b97f4a7c15) >> 3)
	case PrioRandomMainLo:
		if tid == 0 {
			return math.MinInt64/2 + 1
		}
		fallthrough
	default:
		return int64(mix64(prioSeed^uint64(tid)*0x9e3779b97f4a7c15) >> 3)
	}
}

//go:norace
func ensurePipe(slot int32) {
	if pipeOK[slot] {
		return
	}
	var p [2]int32
	_, _, e := syscall.RawSyscall(syscall.SYS_PIPE2, uintptr(unsafe.Pointer(&p)), uintptr(syscall.O_CLOEXEC), 0)
	if e != 0 {
		abortWhy = "pipe2 failed"
		abort(AbortInternal)
	}
	pipeR[slot], pipeW[slot] = int(p[0]), int(p[1])
	pipeOK[slot] = true
}

var wakeByte = [1]byte{1}

//go:norace
func wake(slot int32) {
	for {
		n, _, e := syscall.RawSyscall(syscall.SYS_WRITE, uintptr(pipeW[slot]), uintptr(unsafe.Pointer(&wakeByte[0])), 1)
		if e == syscall.EINTR {
			continue
		}
		if e != 0 || n != 1 {
			abortWhy = "wake: write failed"
			abort(AbortInternal)
		}
		return
	}
}

//go:norace
func park(slot int32) {
	var b [1]byte
	for {
		// Blocking syscall through Syscall (not RawSyscall) so the Go runtime
		// hands the P to another thread while this one sleeps.
		n, _, e := syscall.Syscall(syscall.SYS_READ, uintptr(pipeR[slot]), uintptr(unsafe.Pointer(&b[0])), 1)
		if e == syscall.EINTR || e == syscall.EAGAIN {
			continue
		}
		if e != 0 || n != 1 {
			abortWhy = "park: read failed"
			abort(AbortInternal)
		}
		return
	}
}

// abortWhy says which internal condition failed (harness trouble).
var abortWhy string

// AbortReason returns the reason of the last internal abort.
func AbortReason() string { return abortWhy }

//go:norace
func abort(kind int) {
	stats.Abort = kind
	stats.Steps = steps
	stats.Decisions = ndec
	if OnAbort != nil {
		OnAbort(kind, stats)
	}
	// OnAbort must not return; if it does, die loudly.
	syscall.Exit(70 + kind)
}

//go:norace
func computeNextSw() {
	n := int64(math.MaxInt64)
	switch strat {
	case StratPrio:
		if cpIdx < len(cps) {
			n = cps[cpIdx]
		}
	case StratRW:
		// geometric-ish gap: uniform in [1, 2*mean]
		n = steps + 1 + int64(rwRand.Uint64()%uint64(2*rwMeanGap))
	case StratExplicit:
		for expIdx < len(exp) && exp[expIdx].Step < steps {
			expIdx++ // stale entry (schedule diverged after minimisation)
		}
		if expIdx < len(exp) {
			n = exp[expIdx].Step
		}
	}
	if budget < math.MaxInt64 && budget+1 < n {
		n = budget + 1
	}
	if nextProbe < n {
		n = nextProbe
	}
	nextSw = n
}

// Yield is spliced at the entry of every function of the instrumented
// packages. The fast path is a counter increment and a compare.
//
//go:norace
func Yield(site int32) {
	if hookN > 0 {
		siteHook(site)
	}
	if !active || noPreempt > 0 {
		return // no-preempt sections (probes, sync.Once bodies) do not advance the logical clock
	}
	steps++
	if int(site) < len(siteHits) {
		siteHits[site]++
	}
	if steps < nextSw {
		return
	}
	slowYield(site)
}

//go:norace
func slowYield(site int32) {
	if steps > budget {
		abort(AbortBudget)
	}
	if noPreempt > 0 {
		return // stay in the slow path until pre-emption is allowed again
	}
	if steps >= nextProbe {
		nextProbe = steps + probeEvery
		runProbe()
	}
	switch strat {
	case StratPrio:
		hit := false
		for cpIdx < len(cps) && cps[cpIdx] <= steps {
			slotPrio[curSlot] = lowPrio
			lowPrio--
			cpIdx++
			hit = true
		}
		if hit {
			resched(site, RYield)
		}
	case StratRW:
		resched(site, RYield)
	case StratExplicit:
		for expIdx < len(exp) && exp[expIdx].Step < steps {
			expIdx++
		}
		if expIdx < len(exp) && exp[expIdx].Step == steps && exp[expIdx].Reason == RYield {
			resched(site, RYield)
		}
	}
	computeNextSw()
}

//go:norace
func runProbe() {
	if ProbeHook == nil {
		return
	}
	noPreempt++
	ProbeHook(steps, slotTID[curSlot])
	noPreempt--
}

//go:norace
func slotOfTID(tid int32) int32 {
	for i := int32(0); i < hiSlot; i++ {
		if slotState[i] != stFree && slotTID[i] == tid {
			return i
		}
	}
	return -1
}

// choose picks the next task among the runnable ones. forced == true means the
// running task cannot continue (blocked or ended).
//
//go:norace
func choose(forced bool, reason int8) int32 {
	best := int32(-1)
	switch strat {
	case StratPrio:
		for i := int32(0); i < hiSlot; i++ {
			if slotState[i] == stRunnable && (best < 0 || slotPrio[i] > slotPrio[best]) {
				best = i
			}
		}
	case StratRW:
		n := 0
		for i := int32(0); i < hiSlot; i++ {
			if slotState[i] == stRunnable {
				n++
			}
		}
		if n > 0 {
			k := int(rwRand.Uint64() % uint64(n))
			for i := int32(0); i < hiSlot; i++ {
				if slotState[i] == stRunnable {
					if k == 0 {
						best = i
						break
					}
					k--
				}
			}
		}
	case StratExplicit:
		for expIdx < len(exp) && exp[expIdx].Step < steps {
			expIdx++
		}
		if expIdx < len(exp) && exp[expIdx].Step == steps && (exp[expIdx].Reason == RYield) == (reason == RYield) {
			s := slotOfTID(exp[expIdx].To)
			expIdx++
			if s >= 0 && slotState[s] == stRunnable {
				best = s
			}
		}
		if best < 0 {
			if !forced && slotState[curSlot] == stRunnable {
				best = curSlot
			} else {
				// default: lowest task id
				for i := int32(0); i < hiSlot; i++ {
					if slotState[i] == stRunnable && (best < 0 || slotTID[i] < slotTID[best]) {
						best = i
					}
				}
			}
		}
	}
	return best
}

//go:norace
func record(to int32, reason int8, site int32) {
	if ndec < len(decisions) {
		decisions[ndec] = Decision{Step: steps, To: slotTID[to], Reason: reason, Site: site, From: slotTID[curSlot]}
		if DebugGID != nil {
			decisions[ndec].G = DebugGID()
			decisions[ndec].Slot = curSlot
			decisions[ndec].ToSlot = to
		}
		ndec++
	} else {
		stats.Truncated = true
	}
}

// resched is a scheduling point at which the running task could continue.
//
//go:norace
func resched(site int32, reason int8) {
	if noPreempt > 0 {
		return
	}
	n := choose(false, reason)
	if n < 0 {
		abortWhy = "resched: nothing runnable"
		abort(AbortInternal)
	}
	record(n, reason, site)
	if n != curSlot {
		handover(n, site, true)
	}
}

//go:norace
func handover(to int32, site int32, parkSelf bool) {
	from := curSlot
	stats.Handovers++
	h := stats.Hash
	h = (h ^ uint64(uint32(slotTID[from]))) * 1099511628211
	h = (h ^ uint64(uint32(slotTID[to]))) * 1099511628211
	h = (h ^ uint64(uint32(site))) * 1099511628211
	stats.Hash = h
	if parkSelf && slotTID[from] != 0 && slotTID[to] != 0 {
		// a started, unfinished non-main task is suspended in favour of another non-main task
		stats.Interleaved++
	}
	if probeAtSw && ProbeHook != nil {
		runProbe()
	}
	curSlot = to
	wake(to)
	if parkSelf {
		park(from)
	}
}

// block is called by a task that cannot make progress: mark it blocked and run
// somebody else; returns when somebody made it runnable and chose it again.
//
//go:norace
func block(site int32) {
	if noPreempt > 0 {
		abortWhy = "block inside no-preempt section"
		abort(AbortInternal) // blocking inside a no-preempt section is not supported
	}
	stats.BlockedTimes++
	sinceProgress++
	slotState[curSlot] = stBlocked
	anyRunnable := false
	for i := int32(0); i < hiSlot; i++ {
		if slotState[i] == stRunnable {
			anyRunnable = true
			break
		}
	}
	if !anyRunnable {
		// Nothing is runnable. Before this is called a deadlock every blocked
		// task gets to retry its operation (a wake-up source the simulator does
		// not intercept - e.g. a channel closed by uninstrumented code - must
		// not be reported as a deadlock): only when two full rounds of retries
		// pass without any progress is it one.
		if sinceProgress > 2*int64(liveTasks)+2 {
			if slotPressure {
				abortWhy = "no free task slot and no task can end"
				abort(AbortInternal)
			}
			abort(AbortDeadlock)
		}
		for i := int32(0); i < hiSlot; i++ {
			if slotState[i] == stBlocked {
				slotState[i] = stRunnable
			}
		}
		stats.RetryRounds++
	}
	n := choose(true, RBlock)
	if n < 0 {
		abort(AbortDeadlock)
	}
	record(n, RBlock, site)
	if n == curSlot {
		return // retry at once (this task was the only candidate)
	}
	handover(n, site, true)
}

// afterSync is called after any successful synchronisation operation: every
// blocked task may retry.
//
//go:norace
func afterSync(site int32) {
	sinceProgress = 0
	woke := false
	for i := int32(0); i < hiSlot; i++ {
		if slotState[i] == stBlocked {
			slotState[i] = stRunnable
			woke = true
		}
	}
	if woke {
		resched(site, RUnblock)
	}
}

// ---------------------------------------------------------------------------
// Task life cycle (spliced around `go` statements).
// ---------------------------------------------------------------------------

// Spawn registers a new task and returns its handle. The task becomes
// schedulable at Spawned(), i.e. after the `go` statement has executed.
//
//go:norace
func Spawn() int32 {
	if !active {
		return -1
	}
	s := int32(-1)
	for i := int32(0); i < hiSlot; i++ {
		if slotState[i] == stFree {
			s = i
			break
		}
	}
	if s < 0 && hiSlot < MaxSlots {
		s = hiSlot
		hiSlot++
	}
	for s < 0 {
		// Every slot is taken. Under unfair schedules tasks that have done their work
		// but not yet returned (go-critic's workers sit in their deferred function after
		// the barrier opened) pile up over a long history. The spawner steps aside until
		// one of them has ended; if nobody can end, that is harness trouble, not a deadlock
		// of the program.
		slotPressure = true
		stats.SlotPressure++
		block(-21)
		slotPressure = false
		for i := int32(0); i < hiSlot; i++ {
			if slotState[i] == stFree {
				s = i
				break
			}
		}
	}
	ensurePipe(s)
	slotState[s] = stEmbryo
	slotTID[s] = nextTID
	slotPrio[s] = prioFor(nextTID)
	slotBegun[s] = false
	slotOwner[s] = curSlot
	nextTID++
	liveTasks++
	stats.Tasks++
	if liveTasks > stats.MaxLive {
		stats.MaxLive = liveTasks
	}
	return s
}

// Spawned is spliced right after a `go` statement.
//
//go:norace
func Spawned() {
	if !active {
		return
	}
	any := false
	for i := int32(0); i < hiSlot; i++ {
		if slotState[i] == stEmbryo && slotOwner[i] == curSlot {
			slotState[i] = stRunnable
			any = true
		}
	}
	if any {
		resched(-2, RSpawn)
	}
}

// TaskBegin is the first statement of a spawned goroutine.
//
//go:norace
func TaskBegin(slot int32) {
	if slot < 0 {
		return
	}
	park(slot)
	slotBegun[slot] = true
}

// TaskEnd is deferred first in a spawned goroutine, so it runs last.
//
//go:norace
func TaskEnd(slot int32) {
	if slot < 0 {
		return
	}
	if !active || curSlot != slot {
		abortWhy = "TaskEnd by a task that does not hold the baton"
		abort(AbortInternal)
	}
	slotState[slot] = stFree
	slotWaitN[slot] = 0
	liveTasks--
	sinceProgress = 0
	// everything blocked may retry (e.g. a WaitGroup.Wait after our Done)
	for i := int32(0); i < hiSlot; i++ {
		if slotState[i] == stBlocked {
			slotState[i] = stRunnable
		}
	}
	n := choose(true, REnd)
	if n < 0 {
		abort(AbortDeadlock)
	}
	record(n, REnd, -3)
	handover(n, -3, false)
}

// After is spliced around a value-returning atomic operation: the operation has been
// performed when the yield point is reached.
func After[T any](site int32, v T) T {
	YieldAtomic(site)
	return v
}

// YieldAtomic is the yield point that follows an atomic operation. The window between two
// atomic operations of one task is a handful of instructions wide, far too narrow for
// switch points drawn uniformly over a run's steps, so these points are biased: a random
// walk switches here with probability 1/2, a priority schedule demotes the running task
// here with probability 1/4 (at most 16 times per run).
//
//go:norace
func YieldAtomic(site int32) {
	atomicSeen++
	if !active || noPreempt > 0 {
		return
	}
	steps++
	if int(site) < len(siteHits) {
		siteHits[site]++
	}
	stats.AtomicPoints++
	switch strat {
	case StratRW:
		if rwRand.Uint64()&1 == 0 {
			resched(site, RYield)
			computeNextSw()
			return
		}
	case StratPrio:
		if prioRule < PrioRandom {
			break
		}
		// "Sandwich": a task is set aside right after one of its atomic operations and
		// brought back - ahead of everybody - right after the k-th atomic operation of
		// other tasks (k drawn from 1..3): the A-B-A interleavings around lock-free
		// code that priority change points placed by step count practically never hit.
		if sandwichSlot == curSlot {
			sandwichSlot = -1
		}
		if sandwichSlot >= 0 && slotState[sandwichSlot] == stRunnable {
			sandwichLeft--
			if sandwichLeft <= 0 {
				back := sandwichSlot
				sandwichSlot = -1
				highPrio++
				slotPrio[back] = highPrio
				resched(site, RYield)
				return
			}
		} else if atomicDemotions < 16 && selRand.Uint64()&3 == 0 {
			atomicDemotions++
			sandwichSlot = curSlot
			sandwichLeft = 1 + int(selRand.Uint64()%3)
			slotPrio[curSlot] = lowPrio
			lowPrio--
			resched(site, RYield)
			return
		}
	case StratExplicit:
		// the recorded decision list decides (matched by step in slowYield)
	}
	if steps >= nextSw {
		slowYield(site)
	}
}

// AtomicSeen counts the atomic yield points passed since process start, whether or not
// the scheduler was active (the driver uses it to learn which checkers touch lock-free code).
//
//go:norace
func AtomicSeen() int64 { return atomicSeen }

// NoPreempt brackets a region in which the running task keeps the baton.
//
//go:norace
func NoPreempt(on bool) {
	if !active {
		return
	}
	if on {
		noPreempt++
	} else {
		noPreempt--
		if noPreempt == 0 {
			nextSw = steps // re-evaluate at the next yield
		}
	}
}

// ---------------------------------------------------------------------------
// Wrapped blocking operations. The real operation is always performed, so the
// race detector sees the program's true happens-before edges.
// ---------------------------------------------------------------------------

//go:norace
func noteSemaFull() { stats.SemaFull++ }

const (
	dirRecv = 1
	dirSend = 2
)

func chanIDSend[T any](ch chan<- T) uintptr { return *(*uintptr)(unsafe.Pointer(&ch)) }
func chanIDRecv[T any](ch <-chan T) uintptr { return *(*uintptr)(unsafe.Pointer(&ch)) }

// partner finds the longest-waiting blocked task registered for the opposite
// operation on an unbuffered channel (Go serves waiters first come first
// served) and the index of its matching wait entry.
//
//go:norace
func partner(id uintptr, dir int8) (int32, int32) {
	best, bestK := int32(-1), int32(-1)
	for i := int32(0); i < hiSlot; i++ {
		if slotState[i] != stBlocked || i == curSlot {
			continue
		}
		for k := int32(0); k < slotWaitN[i]; k++ {
			if slotWaitCh[i][k] == id && slotWaitDir[i][k] == dir {
				if best < 0 || slotWaitSeq[i] < slotWaitSeq[best] {
					best, bestK = i, k
				}
				break
			}
		}
	}
	return best, bestK
}

// commit tells a waiting partner to perform its side of a rendezvous now (wait
// entry k). The partner does exactly one real channel operation and parks
// again; it does not get the baton.
//
//go:norace
func commit(p, k int32) {
	slotCommit[p] = k
	slotWaitN[p] = 0
	slotState[p] = stRunnable
	stats.Rendezvous++
	wake(p)
}

//go:norace
func registerWait(id uintptr, dir int8) int32 {
	waitSeq++
	slotWaitCh[curSlot][0] = id
	slotWaitDir[curSlot][0] = dir
	slotWaitN[curSlot] = 1
	slotWaitSeq[curSlot] = waitSeq
	return curSlot
}

//go:norace
func registerWaitMore(id uintptr, dir int8, first bool) int32 {
	if first {
		waitSeq++
		slotWaitN[curSlot] = 0
		slotWaitSeq[curSlot] = waitSeq
	}
	k := slotWaitN[curSlot]
	if k >= maxWait {
		abortWhy = "select with more than 8 communication cases on unbuffered channels"
		abort(AbortInternal)
	}
	slotWaitCh[curSlot][k] = id
	slotWaitDir[curSlot][k] = dir
	slotWaitN[curSlot] = k + 1
	return curSlot
}

// committed is called by a task right after it was woken: >= 0 means it was
// woken for a rendezvous on that wait entry (it does not hold the baton).
//
//go:norace
func committedIdx(me int32) int32 {
	k := slotCommit[me]
	slotCommit[me] = -1
	if k < 0 {
		slotWaitN[me] = 0
	}
	return k
}

//go:norace
func committed(me int32) bool { return committedIdx(me) >= 0 }

//go:norace
func selPick(n int) int { return int(selRand.Uint64() % uint64(n)) }

//go:norace
func parkSelf(me int32) { park(me) }

// Send replaces `ch <- v`.
func Send[T any](ch chan<- T, v T) {
	if !Active() {
		ch <- v
		return
	}
	first := true
	for {
		select {
		case ch <- v:
			afterSync(-10)
			return
		default:
		}
		me := int32(-1)
		if ch != nil && cap(ch) == 0 {
			// unbuffered: nobody is ever really parked inside a channel operation
			// under the simulator, so the hand-off is arranged here and then
			// performed for real by both sides
			id := chanIDSend(ch)
			if p, k := partner(id, dirRecv); p >= 0 {
				commit(p, k)
				ch <- v
				afterSync(-10)
				return
			}
			me = registerWait(id, dirSend)
		}
		if first {
			noteSemaFull()
			first = false
		}
		block(-10)
		if me >= 0 && committed(me) {
			ch <- v
			parkSelf(me) // the other side goes on; wait for the baton
			return
		}
	}
}

// Recv replaces `<-ch`.
func Recv[T any](ch <-chan T) T {
	v, _ := Recv2(ch)
	return v
}

// Recv2 replaces `v, ok := <-ch`.
func Recv2[T any](ch <-chan T) (T, bool) {
	if !Active() {
		v, ok := <-ch
		return v, ok
	}
	for {
		select {
		case v, ok := <-ch:
			afterSync(-11)
			return v, ok
		default:
		}
		me := int32(-1)
		if ch != nil && cap(ch) == 0 {
			id := chanIDRecv(ch)
			if p, k := partner(id, dirSend); p >= 0 {
				commit(p, k)
				v, ok := <-ch
				afterSync(-11)
				return v, ok
			}
			me = registerWait(id, dirRecv)
		}
		block(-11)
		if me >= 0 && committed(me) {
			v, ok := <-ch
			parkSelf(me)
			return v, ok
		}
	}
}

// Close replaces the builtin close: blocked receivers may retry.
func Close[T any](ch chan<- T) {
	act := Active()
	close(ch)
	if act {
		afterSync(-16)
	}
}

// ChanIter replaces the operand of `for v := range ch`.
func ChanIter[T any](ch <-chan T) func(yield func(T) bool) {
	return func(yield func(T) bool) {
		for {
			v, ok := Recv2(ch)
			if !ok || !yield(v) {
				return
			}
		}
	}
}

// ---------------------------------------------------------------------------
// select. The instrumenter rewrites
//
//	select { case v := <-a: A; case b <- x: B; default: D }
//
// into a switch over (*Sel).Do, which decides - from the run's PRNG, where Go
// decides pseudo-randomly - which ready case fires, performs exactly that
// communication for real (so the race detector sees the program's own edges)
// and returns the case index (-1: default).
// ---------------------------------------------------------------------------

// SelCase is one communication case.
type SelCase struct {
	dir  int8
	ch   reflect.Value
	send reflect.Value
}

// RecvCase describes `case ... <-ch`.
func RecvCase[T any](ch <-chan T) SelCase {
	return SelCase{dir: dirRecv, ch: reflect.ValueOf(ch)}
}

// SendCase describes `case ch <- v`.
func SendCase[T any](ch chan<- T, v T) SelCase {
	return SelCase{dir: dirSend, ch: reflect.ValueOf(ch), send: reflect.ValueOf(&v).Elem()}
}

// Sel carries the outcome of one select.
type Sel struct {
	recv reflect.Value
	ok   bool
}

// NewSel is spliced into the switch's init statement.
func NewSel() *Sel { return &Sel{} }

func (c *SelCase) isNil() bool { return !c.ch.IsValid() || c.ch.IsNil() }

func (c *SelCase) reflectCase() reflect.SelectCase {
	if c.isNil() {
		// a nil channel never communicates; reflect wants a typed nil channel
		return reflect.SelectCase{Dir: reflect.SelectRecv, Chan: reflect.ValueOf((chan struct{})(nil))}
	}
	if c.dir == dirSend {
		return reflect.SelectCase{Dir: reflect.SelectSend, Chan: c.ch, Send: c.send}
	}
	return reflect.SelectCase{Dir: reflect.SelectRecv, Chan: c.ch}
}

// try performs case c without blocking; reports whether it communicated.
func (s *Sel) try(c *SelCase) bool {
	if c.isNil() {
		return false
	}
	i, v, ok := reflect.Select([]reflect.SelectCase{c.reflectCase(), {Dir: reflect.SelectDefault}})
	if i != 0 {
		return false
	}
	if c.dir == dirRecv {
		s.recv, s.ok = v, ok
	}
	return true
}

// force performs case c, blocking until the committed partner arrives.
func (s *Sel) force(c *SelCase) {
	_, v, ok := reflect.Select([]reflect.SelectCase{c.reflectCase()})
	if c.dir == dirRecv {
		s.recv, s.ok = v, ok
	}
}

// Do executes the select.
func (s *Sel) Do(hasDefault bool, cases ...SelCase) int {
	if !Active() {
		rc := make([]reflect.SelectCase, 0, len(cases)+1)
		for i := range cases {
			rc = append(rc, cases[i].reflectCase())
		}
		if hasDefault {
			rc = append(rc, reflect.SelectCase{Dir: reflect.SelectDefault})
		}
		i, v, ok := reflect.Select(rc)
		if i == len(cases) {
			return -1
		}
		if cases[i].dir == dirRecv {
			s.recv, s.ok = v, ok
		}
		return i
	}
	n := len(cases)
	for {
		if n > 0 {
			// the cases are tried starting from a drawn one: which of several
			// ready cases fires is the simulator's decision
			start := selPick(n)
			for d := 0; d < n; d++ {
				i := (start + d) % n
				if s.try(&cases[i]) {
					afterSync(-17)
					return i
				}
			}
			// unbuffered channels: a blocked partner registered for the other side
			for d := 0; d < n; d++ {
				i := (start + d) % n
				c := &cases[i]
				if c.isNil() || c.ch.Cap() != 0 {
					continue
				}
				other := int8(dirSend)
				if c.dir == dirSend {
					other = dirRecv
				}
				if p, k := partner(c.ch.Pointer(), other); p >= 0 {
					commit(p, k)
					s.force(c)
					afterSync(-17)
					return i
				}
			}
		}
		if hasDefault {
			return -1
		}
		me := int32(-1)
		first := true
		var entry [maxWait]int // wait entry -> case index
		ne := 0
		for i := range cases {
			c := &cases[i]
			if c.isNil() || c.ch.Cap() != 0 {
				continue
			}
			me = registerWaitMore(c.ch.Pointer(), c.dir, first)
			first = false
			entry[ne] = i
			ne++
		}
		block(-17)
		if me >= 0 {
			if k := committedIdx(me); k >= 0 {
				i := entry[k]
				s.force(&cases[i])
				parkSelf(me) // the other side goes on; wait for the baton
				return i
			}
		}
	}
}

// Received returns the value the chosen receive case got; ch only carries the type.
func Received[T any](ch <-chan T, s *Sel) T {
	v, _ := Received2(ch, s)
	return v
}

// Received2 is Received for `v, ok := <-ch` cases.
func Received2[T any](ch <-chan T, s *Sel) (T, bool) {
	var zero T
	if !s.recv.IsValid() {
		return zero, s.ok
	}
	v, _ := s.recv.Interface().(T)
	return v, s.ok
}

// BlockForever replaces an empty select.
func BlockForever() {
	if !Active() {
		select {}
	}
	for {
		block(-18)
	}
}

// GoWrap replaces the callee of a `go` statement whose callee is not a
// function literal: same type, same evaluation time of callee and arguments;
// the new goroutine registers as a task before it runs the callee.
func GoWrap[F any](t int32, f F) F {
	if t < 0 {
		return f
	}
	fv := reflect.ValueOf(f)
	w := reflect.MakeFunc(fv.Type(), func(args []reflect.Value) []reflect.Value {
		TaskBegin(t)
		defer TaskEnd(t)
		if fv.Type().IsVariadic() {
			return fv.CallSlice(args)
		}
		return fv.Call(args)
	})
	return w.Interface().(F)
}

//go:norace
func wgShadowAdd(p uintptr, d int64) int64 {
	free := -1
	for i := range wgKeys {
		if wgKeys[i] == p {
			wgCnt[i] += d
			c := wgCnt[i]
			if c == 0 {
				wgKeys[i] = 0
			}
			return c
		}
		if wgKeys[i] == 0 && free < 0 {
			free = i
		}
	}
	if d == 0 {
		return 0
	}
	if free < 0 {
		abortWhy = "waitgroup shadow table full"
		abort(AbortInternal)
	}
	wgKeys[free] = p
	wgCnt[free] = d
	return d
}

// WGAdd replaces (*sync.WaitGroup).Add.
func WGAdd(wg *sync.WaitGroup, n int) {
	act := Active() // decided once per operation
	if act {
		wgShadowAdd(uintptr(unsafe.Pointer(wg)), int64(n))
	}
	wg.Add(n)
	if n < 0 && act {
		afterSync(-12)
	}
}

// WGDone replaces (*sync.WaitGroup).Done.
func WGDone(wg *sync.WaitGroup) {
	act := Active() // decided once per operation
	if act {
		wgShadowAdd(uintptr(unsafe.Pointer(wg)), -1)
	}
	wg.Done()
	if act {
		afterSync(-12)
	}
}

// WGWait replaces (*sync.WaitGroup).Wait.
func WGWait(wg *sync.WaitGroup) {
	if Active() {
		for wgShadowAdd(uintptr(unsafe.Pointer(wg)), 0) > 0 {
			block(-13)
		}
	}
	wg.Wait() // does not block any more; gives the race detector the Done->Wait edge
}

// Locker is what the mutex wrappers need.
type tryLocker interface {
	TryLock() bool
	Lock()
	Unlock()
}

// MuLock replaces (*sync.Mutex).Lock and (*sync.RWMutex).Lock.
func MuLock(mu tryLocker) {
	if !Active() {
		mu.Lock()
		return
	}
	for !mu.TryLock() {
		block(-14)
	}
	// Taking a lock is a scheduling-relevant event only for others; no resched.
}

// MuUnlock replaces Unlock.
func MuUnlock(mu tryLocker) {
	act := Active()
	mu.Unlock()
	if act {
		afterSync(-15)
	}
}

// MuRLock replaces (*sync.RWMutex).RLock.
func MuRLock(mu *sync.RWMutex) {
	if !Active() {
		mu.RLock()
		return
	}
	for !mu.TryRLock() {
		block(-14)
	}
}

// MuRUnlock replaces (*sync.RWMutex).RUnlock.
func MuRUnlock(mu *sync.RWMutex) {
	act := Active()
	mu.RUnlock()
	if act {
		afterSync(-15)
	}
}

// OnceDo replaces (*sync.Once).Do: the function runs without pre-emption, so
// no task is ever parked while holding the Once's internal lock.
func OnceDo(o *sync.Once, f func()) {
	NoPreempt(true)
	defer NoPreempt(false)
	o.Do(f)
}
