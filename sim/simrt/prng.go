// Package simrt is the simulator runtime linked into instrumented go-critic
// builds: seeded scheduler with a race-detector-invisible baton, map-order
// seam, simulated rule-file disk and the event log.
//
// Rule of this package: every piece of package-level state that can be touched
// from task context is accessed only from functions marked //go:norace, so the
// race detector sees nothing but the analysed program's own accesses and
// synchronisation.
package simrt

// splitmix64: the only generator used anywhere in the simulator.

//go:norace
func mix64(z uint64) uint64 {
	z += 0x9e3779b97f4a7c15
	z = (z ^ (z >> 30)) * 0xbf58476d1ce4e5b9
	z = (z ^ (z >> 27)) * 0x94d049bb133111eb
	return z ^ (z >> 31)
}

// Rand is a tiny deterministic generator. The zero value is usable.
type Rand struct{ s uint64 }

// NewRand derives an independent stream from a seed and a stream name.
func NewRand(seed uint64, stream string) *Rand {
	h := seed
	for i := 0; i < len(stream); i++ {
		h = mix64(h ^ uint64(stream[i]))
	}
	return &Rand{s: mix64(h)}
}

//go:norace
func (r *Rand) Uint64() uint64 {
	r.s += 0x9e3779b97f4a7c15
	z := r.s
	z = (z ^ (z >> 30)) * 0xbf58476d1ce4e5b9
	z = (z ^ (z >> 27)) * 0x94d049bb133111eb
	return z ^ (z >> 31)
}

// Intn returns a value in [0,n). n must be > 0.
//
//go:norace
func (r *Rand) Intn(n int) int {
	if n <= 1 {
		return 0
	}
	return int(r.Uint64() % uint64(n))
}

//go:norace
func (r *Rand) Float64() float64 {
	return float64(r.Uint64()>>11) / float64(1<<53)
}

// Perm returns a Fisher-Yates permutation of [0,n).
func (r *Rand) Perm(n int) []int {
	p := make([]int, n)
	for i := range p {
		p[i] = i
	}
	for i := n - 1; i > 0; i-- {
		j := r.Intn(i + 1)
		p[i], p[j] = p[j], p[i]
	}
	return p
}

// State exposes the generator state (for replay files).
func (r *Rand) State() uint64 { return r.s }
