package simrt

import "reflect"

// golang.org/x/sync/errgroup under the scheduler. The goroutines of a group are
// started inside the (uninstrumented) errgroup package, so the `go` splice never
// sees them: Go registers the task itself and wraps the function; Wait and the
// SetLimit semaphore are cooperative (shadow counters per group), the real calls
// are still made, so the race detector keeps the group's own happens-before edges.

var (
	egKeys  [32]uintptr
	egCount [32]int64
	egLimit [32]int64
)

//go:norace
func egSlot(key uintptr, create bool) int {
	free := -1
	for i := range egKeys {
		if egKeys[i] == key {
			return i
		}
		if egKeys[i] == 0 && free < 0 {
			free = i
		}
	}
	if !create {
		return -1
	}
	if free < 0 {
		abortWhy = "errgroup shadow table full"
		abort(AbortInternal)
	}
	egKeys[free], egCount[free], egLimit[free] = key, 0, 0
	return free
}

//go:norace
func egAdd(key uintptr, d int64) {
	i := egSlot(key, true)
	egCount[i] += d
}

//go:norace
func egActive(key uintptr) int64 {
	if i := egSlot(key, false); i >= 0 {
		return egCount[i]
	}
	return 0
}

//go:norace
func egLimitOf(key uintptr) int64 {
	if i := egSlot(key, false); i >= 0 {
		return egLimit[i]
	}
	return 0
}

//go:norace
func egSetLimit(key uintptr, n int64) {
	egLimit[egSlot(key, true)] = n
}

//go:norace
func egReset() {
	for i := range egKeys {
		egKeys[i], egCount[i], egLimit[i] = 0, 0, 0
	}
}

func egKey(g any) uintptr {
	v := reflect.ValueOf(g)
	if v.Kind() == reflect.Pointer {
		return v.Pointer()
	}
	return 0
}

// EGGo replaces (*errgroup.Group).Go.
func EGGo(g interface{ Go(func() error) }, f func() error) {
	if !Active() {
		g.Go(f)
		return
	}
	key := egKey(g)
	for lim := egLimitOf(key); lim > 0 && egActive(key) >= lim; lim = egLimitOf(key) {
		block(-22) // the group's limit is reached: what the real Go would block on
	}
	t := Spawn()
	egAdd(key, 1)
	g.Go(func() error {
		TaskBegin(t)
		// The shadow count goes down only at the very end, with no scheduling point before
		// TaskEnd: from there the goroutine runs freely until the group has released its real
		// semaphore slot, so whoever sees the shadow slot free will not wait for long.
		defer func() {
			egAdd(key, -1)
			TaskEnd(t)
		}()
		return f()
	})
	Spawned()
}

// EGWait replaces (*errgroup.Group).Wait.
func EGWait(g interface{ Wait() error }) error {
	if Active() {
		key := egKey(g)
		for egActive(key) > 0 {
			block(-23)
		}
	}
	return g.Wait() // every task has ended; returns as soon as their goroutines have unwound
}

// EGSetLimit replaces (*errgroup.Group).SetLimit.
func EGSetLimit(g interface{ SetLimit(int) }, n int) {
	if Active() {
		egSetLimit(egKey(g), int64(n))
	}
	g.SetLimit(n)
}
