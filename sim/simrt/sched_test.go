package simrt

import (
	"sync"
	"sync/atomic"
	"testing"

	"golang.org/x/sync/errgroup"
)

type box struct{ x int }

// miniature of go-critic's checkFile
func workload(n, conc int, shared *box, racy bool) []int {
	out := make([]int, n)
	sema := make(chan struct{}, conc)
	var wg sync.WaitGroup
	WGAdd(&wg, n)
	for i := 0; i < n; i++ {
		Send(sema, struct{}{})
		t := Spawn()
		go func() {
			TaskBegin(t)
			defer TaskEnd(t)
			defer func() {
				WGDone(&wg)
				Recv(sema)
			}()
			for k := 0; k < 50; k++ {
				Yield(int32(k))
				if racy && i%2 == 0 {
					shared.x++ // mutate-then-restore window
					Yield(100)
					shared.x--
				}
				out[i] += shared.x
			}
		}()
		Spawned()
	}
	WGWait(&wg)
	return out
}

func runOnce(cfg *SchedConfig, racy bool) ([]int, SchedStats, []Decision) {
	b := &box{}
	Start(cfg)
	out := workload(8, 3, b, racy)
	Drain()
	st := Stop()
	return out, st, Decisions()
}

func TestDeterministicAndReplay(t *testing.T) {
	for seed := uint64(1); seed < 30; seed++ {
		cfgs := []*SchedConfig{
			{Strategy: StratPrio, PrioRule: PrioMainFirst},
			{Strategy: StratPrio, PrioRule: PrioWorkersFirst},
			{Strategy: StratPrio, PrioRule: PrioReverse},
			{Strategy: StratPrio, PrioRule: PrioRandom, PrioSeed: seed, ChangePoints: []int64{int64(seed * 7), int64(seed*7 + 90)}},
			{Strategy: StratRW, RWSeed: seed, RWMeanGap: 20},
		}
		for ci, cfg := range cfgs {
			o1, s1, d1 := runOnce(cfg, true)
			o2, s2, _ := runOnce(cfg, true)
			if s1.Hash != s2.Hash || s1.Steps != s2.Steps {
				t.Fatalf("seed %d cfg %d: not deterministic: %+v vs %+v", seed, ci, s1, s2)
			}
			for i := range o1 {
				if o1[i] != o2[i] {
					t.Fatalf("outputs differ")
				}
			}
			// explicit replay
			o3, s3, _ := runOnce(&SchedConfig{Strategy: StratExplicit, Explicit: d1}, true)
			if s3.Hash != s1.Hash || s3.Steps != s1.Steps {
				t.Fatalf("seed %d cfg %d: explicit replay diverged: %+v vs %+v", seed, ci, s1, s3)
			}
			for i := range o1 {
				if o1[i] != o3[i] {
					t.Fatalf("replay outputs differ")
				}
			}
			if ci == 4 && s1.Interleaved == 0 {
				t.Fatalf("random walk did not interleave")
			}
		}
	}
}

func TestDirtyWindowVisible(t *testing.T) {
	// serial schedules give all-zero sums; some random-walk schedule must observe the window
	o, _, _ := runOnce(&SchedConfig{Strategy: StratPrio, PrioRule: PrioWorkersFirst}, true)
	for _, v := range o {
		if v != 0 {
			t.Fatalf("serial run saw dirty window")
		}
	}
	seen := false
	for seed := uint64(1); seed < 50 && !seen; seed++ {
		o, _, _ := runOnce(&SchedConfig{Strategy: StratRW, RWSeed: seed, RWMeanGap: 10}, true)
		for _, v := range o {
			if v != 0 {
				seen = true
			}
		}
	}
	if !seen {
		t.Fatalf("no schedule observed the dirty window")
	}
}

// worker pool over an unbuffered job channel: range over channel, close,
// `go` with a named callee, results over a second unbuffered channel
func poolWorker(id int, jobs <-chan int, results chan<- [2]int, wg *sync.WaitGroup) {
	defer WGDone(wg)
	for j := range ChanIter(jobs) {
		Yield(7)
		Send(results, [2]int{j, j*j + id*0})
	}
}

func poolWorkload(nJobs, nWorkers int) (sum int, order []int) {
	jobs := make(chan int)
	results := make(chan [2]int)
	var wg sync.WaitGroup
	WGAdd(&wg, nWorkers)
	for w := 0; w < nWorkers; w++ {
		t := Spawn()
		go GoWrap(t, poolWorker)(w, jobs, results, &wg)
		Spawned()
	}
	t := Spawn()
	go func() {
		TaskBegin(t)
		defer TaskEnd(t)
		for j := 0; j < nJobs; j++ {
			Yield(8)
			Send(jobs, j)
		}
		Close(jobs)
		WGWait(&wg)
		Close(results)
	}()
	Spawned()
	for r := range ChanIter(results) {
		Yield(9)
		sum += r[1]
		order = append(order, r[0])
	}
	return
}

func TestUnbufferedPool(t *testing.T) {
	want := 0
	for j := 0; j < 20; j++ {
		want += j * j
	}
	orders := map[string]bool{}
	for seed := uint64(1); seed < 40; seed++ {
		cfgs := []*SchedConfig{
			{Strategy: StratPrio, PrioRule: PrioMainFirst},
			{Strategy: StratPrio, PrioRule: PrioWorkersFirst},
			{Strategy: StratPrio, PrioRule: PrioRandom, PrioSeed: seed, ChangePoints: []int64{int64(seed), int64(seed * 3)}},
			{Strategy: StratRW, RWSeed: seed, RWMeanGap: 3},
		}
		for ci, cfg := range cfgs {
			run := func(c *SchedConfig) (int, []int, SchedStats, []Decision) {
				Start(c)
				s, o := poolWorkload(20, 4)
				Drain()
				st := Stop()
				return s, o, st, Decisions()
			}
			s1, o1, st1, d1 := run(cfg)
			s2, o2, st2, _ := run(cfg)
			if s1 != want || s2 != want {
				t.Fatalf("seed %d cfg %d: sum %d/%d want %d", seed, ci, s1, s2, want)
			}
			if st1.Hash != st2.Hash || st1.Steps != st2.Steps || len(o1) != len(o2) {
				t.Fatalf("seed %d cfg %d: not deterministic", seed, ci)
			}
			for i := range o1 {
				if o1[i] != o2[i] {
					t.Fatalf("seed %d cfg %d: result order differs between identical runs", seed, ci)
				}
			}
			if st1.Rendezvous == 0 {
				t.Fatalf("no rendezvous counted")
			}
			s3, o3, st3, _ := run(&SchedConfig{Strategy: StratExplicit, Explicit: d1})
			if s3 != want || st3.Hash != st1.Hash {
				t.Fatalf("seed %d cfg %d: explicit replay diverged", seed, ci)
			}
			for i := range o1 {
				if o1[i] != o3[i] {
					t.Fatalf("replay order differs")
				}
			}
			k := ""
			for _, x := range o1 {
				k += string(rune('a' + x))
			}
			orders[k] = true
		}
	}
	if len(orders) < 10 {
		t.Fatalf("only %d distinct completion orders explored", len(orders))
	}
}

func TestTrueDeadlockStillReported(t *testing.T) {
	// covered by the abort hook: a receive nobody will ever serve
	got := 0
	old := OnAbort
	defer func() { OnAbort = old }()
	done := make(chan struct{})
	OnAbort = func(kind int, st SchedStats) {
		got = kind
		close(done)
		select {} // must not return
	}
	go func() {
		Start(&SchedConfig{Strategy: StratPrio, PrioRule: PrioMainFirst})
		ch := make(chan int)
		Recv(ch)
	}()
	<-done
	if got != AbortDeadlock {
		t.Fatalf("abort kind %d", got)
	}
	active = false
}

// collector in the style of a select-based result loop: workers send on an
// unbuffered channel, a closer closes done after the barrier
func selectWorkload(n int) (got int, defaults int) {
	results := make(chan int)
	done := make(chan struct{})
	var wg sync.WaitGroup
	WGAdd(&wg, n)
	for i := 0; i < n; i++ {
		t := Spawn()
		go func() {
			TaskBegin(t)
			defer TaskEnd(t)
			defer WGDone(&wg)
			Yield(3)
			s := NewSel()
			switch s.Do(false, SendCase(results, i+1)) {
			case 0:
			}
		}()
		Spawned()
	}
	t := Spawn()
	go func() {
		TaskBegin(t)
		defer TaskEnd(t)
		WGWait(&wg)
		Close(done)
	}()
	Spawned()
	for {
		s := NewSel()
		switch s.Do(true, RecvCase(results), RecvCase(done)) {
		case 0:
			got += Received(results, s)
		case 1:
			return
		default:
			defaults++
			Yield(4)
			// without default the collector would block; poll a bounded number of times then block
			s2 := NewSel()
			switch s2.Do(false, RecvCase(results), RecvCase(done)) {
			case 0:
				got += Received(results, s2)
			case 1:
				return
			}
		}
	}
}

func TestSelect(t *testing.T) {
	want := 0
	for i := 1; i <= 6; i++ {
		want += i
	}
	for seed := uint64(1); seed < 60; seed++ {
		for ci, cfg := range []*SchedConfig{
			{Strategy: StratPrio, PrioRule: PrioMainFirst},
			{Strategy: StratPrio, PrioRule: PrioWorkersFirst},
			{Strategy: StratPrio, PrioRule: PrioRandom, PrioSeed: seed, ChangePoints: []int64{int64(seed % 9)}},
			{Strategy: StratRW, RWSeed: seed, RWMeanGap: 2},
		} {
			run := func() (int, SchedStats) {
				Start(cfg)
				g, _ := selectWorkload(6)
				Drain()
				return g, Stop()
			}
			g1, s1 := run()
			g2, s2 := run()
			if g1 != want || g2 != want {
				t.Fatalf("seed %d cfg %d: got %d/%d want %d", seed, ci, g1, g2, want)
			}
			if s1.Hash != s2.Hash || s1.Steps != s2.Steps {
				t.Fatalf("seed %d cfg %d: select run not deterministic", seed, ci)
			}
		}
	}
}

// more tasks than slots: main keeps spawning without ever blocking, under a schedule that
// prefers main, so nothing ends by itself
func TestSlotPressure(t *testing.T) {
	Start(&SchedConfig{Strategy: StratPrio, PrioRule: PrioMainFirst})
	total := 0
	n := MaxSlots + 500
	var wg sync.WaitGroup
	WGAdd(&wg, n)
	for i := 0; i < n; i++ {
		tk := Spawn()
		go func() {
			TaskBegin(tk)
			defer TaskEnd(tk)
			Yield(1)
			total++
			WGDone(&wg)
		}()
		Spawned()
	}
	WGWait(&wg)
	Drain()
	st := Stop()
	if total != n {
		t.Fatalf("total %d", total)
	}
	if st.SlotPressure == 0 {
		t.Fatalf("slot pressure never hit (tasks %d)", st.Tasks)
	}
}

// a one-entry memo made of two separate atomics (type, size): correct with one writer, wrong
// under an A-B-A interleaving around the atomic operations, invisible to the race detector
type twoAtomicsMemo struct{ typ, size atomic.Int64 }

func (m *twoAtomicsMemo) sizeOf(t int64) int64 {
	if After(50, m.typ.Load()) == t {
		return After(51, m.size.Load())
	}
	size := t * 100 // the "computation"
	m.size.Store(size)
	YieldAtomic(52)
	m.typ.Store(t)
	YieldAtomic(53)
	return size
}

func memoWorkload(nTasks int) (wrong int) {
	var m twoAtomicsMemo
	var wg sync.WaitGroup
	WGAdd(&wg, nTasks)
	bad := make([]int, nTasks)
	for i := 0; i < nTasks; i++ {
		tk := Spawn()
		go func() {
			TaskBegin(tk)
			defer TaskEnd(tk)
			defer WGDone(&wg)
			for k := 0; k < 30; k++ {
				Yield(int32(k))
				t := int64(1 + (i+k)%3)
				if m.sizeOf(t) != t*100 {
					bad[i]++
				}
			}
		}()
		Spawned()
	}
	WGWait(&wg)
	for _, b := range bad {
		wrong += b
	}
	return
}

func TestAtomicSandwichFindsTwoAtomicsBug(t *testing.T) {
	found := map[string]int{}
	for seed := uint64(1); seed <= 40; seed++ {
		for name, cfg := range map[string]*SchedConfig{
			"pct": {Strategy: StratPrio, PrioRule: PrioRandomMainHi, PrioSeed: seed},
			"rw":  {Strategy: StratRW, RWSeed: seed, RWMeanGap: 200},
		} {
			Start(cfg)
			w := memoWorkload(6)
			Drain()
			Stop()
			if w > 0 {
				found[name]++
			}
		}
	}
	if found["pct"] == 0 || found["rw"] == 0 {
		t.Fatalf("schedules that expose the two-atomics memo: %v of 40 each", found)
	}
	t.Logf("exposing schedules out of 40: %v", found)
}

func egWorkload(n, limit int) []int {
	out := make([]int, n)
	var g errgroup.Group
	EGSetLimit(&g, limit)
	for i := 0; i < n; i++ {
		EGGo(&g, func() error {
			for k := 0; k < 20; k++ {
				Yield(int32(k))
				out[i]++
			}
			return nil
		})
	}
	if err := EGWait(&g); err != nil {
		panic(err)
	}
	return out
}

func TestErrgroup(t *testing.T) {
	for seed := uint64(1); seed < 30; seed++ {
		for ci, cfg := range []*SchedConfig{
			{Strategy: StratPrio, PrioRule: PrioMainFirst},
			{Strategy: StratPrio, PrioRule: PrioRandom, PrioSeed: seed, ChangePoints: []int64{int64(seed * 3)}},
			{Strategy: StratRW, RWSeed: seed, RWMeanGap: 5},
		} {
			run := func() ([]int, SchedStats) {
				Start(cfg)
				o := egWorkload(9, 3)
				Drain()
				return o, Stop()
			}
			o1, s1 := run()
			_, s2 := run()
			for _, v := range o1 {
				if v != 20 {
					t.Fatalf("seed %d cfg %d: %v", seed, ci, o1)
				}
			}
			if s1.Hash != s2.Hash || s1.Steps != s2.Steps {
				t.Fatalf("seed %d cfg %d: errgroup run not deterministic", seed, ci)
			}
			if s1.MaxLive > 4 {
				t.Fatalf("limit 3 not honoured: %d live tasks", s1.MaxLive)
			}
		}
	}
}
