package simrt

import (
	"sync"
	"testing"
)

type box struct{ x int }

// miniature of go-critic's checkFile
func workload(n, conc int, shared *box, racy bool) []int {
	out := make([]int, n)
	sema := make(chan struct{}, conc)
	var wg sync.WaitGroup
	WGAdd(&wg, n)
	for i := 0; i < n; i++ {
		Send(sema, struct{}{})
		t := Spawn()
		go func() {
			TaskBegin(t)
			defer TaskEnd(t)
			defer func() {
				WGDone(&wg)
				Recv(sema)
			}()
			for k := 0; k < 50; k++ {
				Yield(int32(k))
				if racy && i%2 == 0 {
					shared.x++ // mutate-then-restore window
					Yield(100)
					shared.x--
				}
				out[i] += shared.x
			}
		}()
		Spawned()
	}
	WGWait(&wg)
	return out
}

func runOnce(cfg *SchedConfig, racy bool) ([]int, SchedStats, []Decision) {
	b := &box{}
	Start(cfg)
	out := workload(8, 3, b, racy)
	Drain()
	st := Stop()
	return out, st, Decisions()
}

func TestDeterministicAndReplay(t *testing.T) {
	for seed := uint64(1); seed < 30; seed++ {
		cfgs := []*SchedConfig{
			{Strategy: StratPrio, PrioRule: PrioMainFirst},
			{Strategy: StratPrio, PrioRule: PrioWorkersFirst},
			{Strategy: StratPrio, PrioRule: PrioReverse},
			{Strategy: StratPrio, PrioRule: PrioRandom, PrioSeed: seed, ChangePoints: []int64{int64(seed * 7), int64(seed*7 + 90)}},
			{Strategy: StratRW, RWSeed: seed, RWMeanGap: 20},
		}
		for ci, cfg := range cfgs {
			o1, s1, d1 := runOnce(cfg, true)
			o2, s2, _ := runOnce(cfg, true)
			if s1.Hash != s2.Hash || s1.Steps != s2.Steps {
				t.Fatalf("seed %d cfg %d: not deterministic: %+v vs %+v", seed, ci, s1, s2)
			}
			for i := range o1 {
				if o1[i] != o2[i] {
					t.Fatalf("outputs differ")
				}
			}
			// explicit replay
			o3, s3, _ := runOnce(&SchedConfig{Strategy: StratExplicit, Explicit: d1}, true)
			if s3.Hash != s1.Hash || s3.Steps != s1.Steps {
				t.Fatalf("seed %d cfg %d: explicit replay diverged: %+v vs %+v", seed, ci, s1, s3)
			}
			for i := range o1 {
				if o1[i] != o3[i] {
					t.Fatalf("replay outputs differ")
				}
			}
			if ci == 4 && s1.Interleaved == 0 {
				t.Fatalf("random walk did not interleave")
			}
		}
	}
}

func TestDirtyWindowVisible(t *testing.T) {
	// serial schedules give all-zero sums; some random-walk schedule must observe the window
	o, _, _ := runOnce(&SchedConfig{Strategy: StratPrio, PrioRule: PrioWorkersFirst}, true)
	for _, v := range o {
		if v != 0 {
			t.Fatalf("serial run saw dirty window")
		}
	}
	seen := false
	for seed := uint64(1); seed < 50 && !seen; seed++ {
		o, _, _ := runOnce(&SchedConfig{Strategy: StratRW, RWSeed: seed, RWMeanGap: 10}, true)
		for _, v := range o {
			if v != 0 {
				seen = true
			}
		}
	}
	if !seen {
		t.Fatalf("no schedule observed the dirty window")
	}
}
