package simrt

import "testing"

func TestCleanNoRace(t *testing.T) {
	for seed := uint64(1); seed < 40; seed++ {
		runOnce(&SchedConfig{Strategy: StratRW, RWSeed: seed, RWMeanGap: 7}, false)
		runOnce(&SchedConfig{Strategy: StratPrio, PrioRule: PrioRandom, PrioSeed: seed, ChangePoints: []int64{int64(seed * 5)}}, false)
	}
}
