// Package simapi holds the plain data types exchanged between the orchestrator
// (cmd/gcsim) and the worker (the instrumented go-critic binary driven by
// simdrv): jobs, run configurations (= replay files) and run results.
package simapi

import (
	"encoding/json"

	"verif.local/gcsim/simrt"
)

// Visit is one package visit of a history: which corpus package and which of
// its files, in which order.
type Visit struct {
	Pkg   string `json:"pkg"`
	Files []int  `json:"files"`
	// DeclSeed != 0: the non-import top-level declarations of every visited
	// file are delivered in a permuted order (same nodes, no re-parse); the
	// reference model sees the same permuted file.
	DeclSeed uint64 `json:"decl_seed,omitempty"`
}

// Variant is one (map policy, schedule) pair under which a workload is executed.
type Variant struct {
	MapPolicy int                `json:"map_policy"`
	MapSeed   uint64             `json:"map_seed,omitempty"`
	Sched     *simrt.SchedConfig `json:"sched,omitempty"` // nil = simulator scheduler off (real goroutines, free running)
	// CPFrac places PCT priority-change points as fractions of the calibrated
	// serial step count; resolved to absolute steps (Sched.ChangePoints) when
	// the run executes, so a replay file holds absolute steps only.
	CPFrac []float64 `json:"cp_frac,omitempty"`
	// Twin: execute over the independently loaded twin corpus, whose files were
	// registered in the token.FileSet in a different (seeded) order - what a
	// loader that parses files concurrently does from one process to the next.
	Twin bool `json:"twin,omitempty"`
}

// RunConfig is everything that determines one simulated run. A replay file is
// a RunConfig (plus the violation it reproduces); it contains explicit
// decision lists, not just a seed.
type RunConfig struct {
	Prop    string `json:"prop"`
	Tier    string `json:"tier,omitempty"`
	Index   int    `json:"index"`
	Seed    uint64 `json:"seed"`     // VERIF_SEED
	RunSeed uint64 `json:"run_seed"` // derived from (Seed, Prop, Index)
	Kind    string `json:"kind"`     // which engine executes this run

	Args     []string  `json:"args,omitempty"`   // front-end flags: selection, parameters, -concurrency
	Visits   []Visit   `json:"visits,omitempty"` // history
	Variants []Variant `json:"variants,omitempty"`

	// property specific part (fault plans, permutations, ...)
	Extra json.RawMessage `json:"extra,omitempty"`

	// set in replay files
	Expect *Violation `json:"expect,omitempty"`
}

// Violation describes a property violation found in a run.
type Violation struct {
	Class    string `json:"class"`    // e.g. diag-mismatch, order-differs, race, deadlock, tree-mutated, ...
	Identity string `json:"identity"` // stable identity of the failing input/history/call site (known-findings key)
	Detail   string `json:"detail"`
}

// RunResult is one line of a worker's output.
type RunResult struct {
	Start *int `json:"start,omitempty"` // "run i is about to start" marker
	Done  bool `json:"done,omitempty"`  // last line of a worker
	// Next (with Done): the worker stopped early because its heap had grown past the
	// recycling limit; the runs from this index on are for a fresh process.
	Next *int `json:"next,omitempty"`

	Index       int              `json:"index"`
	Config      *RunConfig       `json:"config,omitempty"`
	Verdict     string           `json:"verdict,omitempty"` // ok | violation | skip
	Violations  []Violation      `json:"violations,omitempty"`
	NonTrivial  bool             `json:"nontrivial,omitempty"`
	DecisionID  string           `json:"decision_id,omitempty"`  // hash of the run's decision lists (distinctness)
	Digest      string           `json:"digest,omitempty"`       // digest of everything observable, for same-seed cross-process comparison
	DigestParts []string         `json:"digest_parts,omitempty"` // what the digest is made of (hash of printed records, hand-over hash, map hash, steps): tells which part differed
	Stats       map[string]int64 `json:"stats,omitempty"`
	Faults      map[string]int64 `json:"faults,omitempty"` // fault kinds that actually fired
	Probes      map[string]int64 `json:"probes,omitempty"` // rare-condition probes
	Sample      json.RawMessage  `json:"sample,omitempty"`
	Notes       []string         `json:"notes,omitempty"`
	WallMs      int64            `json:"wall_ms,omitempty"`

	// process level (Done line)
	Proc map[string]any `json:"proc,omitempty"`
}

// Job is what the orchestrator hands to a worker process.
type Job struct {
	Mode    string      `json:"mode"` // runs | ref | replay
	Prop    string      `json:"prop"`
	Tier    string      `json:"tier"`
	Seed    uint64      `json:"seed"`
	From    int         `json:"from"`
	To      int         `json:"to"` // exclusive
	Stride  int         `json:"stride"`
	Indices []int       `json:"indices,omitempty"` // explicit run indices (overrides From/To/Stride)
	Out     string      `json:"out"`
	RefPath string      `json:"ref_path,omitempty"`
	RepoDir string      `json:"repo_dir"`
	Configs []RunConfig `json:"configs,omitempty"` // explicit configurations (replay / minimisation)
	// minimisation: try the candidates in order, stop at the first one that
	// still shows a violation of the wanted class
	Race bool `json:"race,omitempty"`
}
