module verif.local/gcsim

go 1.23.0

require (
	github.com/go-critic/go-critic v0.0.0
	github.com/go-toolsmith/astcast v1.1.0
	golang.org/x/tools v0.32.0
)

require (
	github.com/go-toolsmith/astfmt v1.1.0 // indirect
	golang.org/x/mod v0.24.0 // indirect
	golang.org/x/sync v0.13.0 // indirect
)

replace github.com/go-critic/go-critic => /repo
