module verif.local/gcsim

go 1.23.0

require (
	github.com/go-critic/go-critic v0.0.0
	github.com/go-toolsmith/astcast v1.1.0
	golang.org/x/sync v0.13.0
	golang.org/x/tools v0.32.0
)

require (
	github.com/go-toolsmith/astcopy v1.1.0 // indirect
	github.com/go-toolsmith/astequal v1.2.0 // indirect
	github.com/go-toolsmith/astfmt v1.1.0 // indirect
	github.com/go-toolsmith/astp v1.1.0 // indirect
	github.com/go-toolsmith/strparse v1.1.0 // indirect
	github.com/go-toolsmith/typep v1.1.0 // indirect
	github.com/google/go-cmp v0.7.0 // indirect
	github.com/quasilyte/go-ruleguard v0.4.4 // indirect
	github.com/quasilyte/go-ruleguard/dsl v0.3.22 // indirect
	github.com/quasilyte/gogrep v0.5.0 // indirect
	github.com/quasilyte/regex/syntax v0.0.0-20210819130434-b3f0c404a727 // indirect
	github.com/quasilyte/stdinfo v0.0.0-20220114132959-f7386bf02567 // indirect
	golang.org/x/exp/typeparams v0.0.0-20240213143201-ec583247a57a // indirect
	golang.org/x/mod v0.24.0 // indirect
)

replace github.com/go-critic/go-critic => /repo
