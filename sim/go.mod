module verif.local/gcsim

go 1.23.0
