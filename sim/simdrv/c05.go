package simdrv

import (
	"encoding/json"
	"fmt"
	"go/ast"
	"os"
	"strings"

	"github.com/go-toolsmith/astcast"

	"github.com/go-critic/go-critic/linter"
	"verif.local/gcsim/simapi"
	"verif.local/gcsim/simrt"
)

// C05: checkers treat their input as read-only.
//
//   lib-frame     every selected checker is applied, in a seeded order, to the
//                 SAME tree (no re-parse in between); after every Check the
//                 fingerprint of the syntax trees, the type information, the
//                 shared context, the checker registry and the astcast
//                 sentinels must be what it was before, and the diagnostics
//                 (with fixes) must equal the run-alone reference.
//   cli-switch-fp the real CLI under a seeded schedule with the fingerprint
//                 taken at context switches: a difference there means the next
//                 task is about to read a tree some suspended checker has
//                 altered, even if that checker would restore it later.

type c05Extra struct {
	Order     string `json:"order"` // name | reverse | shuffle
	OrderSeed uint64 `json:"order_seed,omitempty"`
}

func (w *Worker) genC05(rc *simapi.RunConfig) {
	r := simrt.NewRand(rc.RunSeed, "work")
	n := len(w.index.Names)
	if rc.Index%4 == 3 {
		// interleaved CLI run with switch-point fingerprints
		rc.Kind = "cli-switch-fp"
		pkgs := w.pickPkgs(r, rc.Index/4, 1)
		rc.Visits = []simapi.Visit{{Pkg: pkgs[0], Files: w.index.AllFiles(pkgs[0])}}
		wl := w.genWorkload(r, pkgs, true)
		if len(wl.Checkers) < 6 {
			for i := 0; i < 10; i++ {
				wl.Checkers = append(wl.Checkers, w.infos[r.Intn(len(w.infos))].Name)
			}
			wl.Checkers = uniqSorted(wl.Checkers)
		}
		rc.Args = wl.Args()
		sr := simrt.NewRand(rc.RunSeed, "sched")
		v := genVariant(sr, false)
		for v.Sched.Strategy == simrt.StratPrio && v.Sched.PrioRule <= simrt.PrioReverse {
			v = genVariant(sr, false) // a serial schedule has no interesting switch points
		}
		v.MapPolicy, v.MapSeed = simrt.MapCanonical, 0
		rc.Variants = []simapi.Variant{v}
		return
	}
	rc.Kind = "lib-frame"
	k := rc.Index - rc.Index/4 // index among the lib-frame runs
	p := w.index.Names[k%n]
	rc.Visits = []simapi.Visit{{Pkg: p, Files: w.index.AllFiles(p)}}
	round := k / n
	var wl *Workload
	ex := c05Extra{}
	switch {
	case round == 0: // exhaustive sweep: every checker on every package, name order
		wl = &Workload{EnableAll: true, Params: map[string]map[string]any{}}
		ex.Order = "name"
	case round == 1: // the same, reverse order
		wl = &Workload{EnableAll: true, Params: map[string]map[string]any{}}
		ex.Order = "reverse"
	default:
		wl = w.genWorkload(r, []string{p}, true)
		if r.Intn(2) == 0 {
			wl = &Workload{EnableAll: true, Params: wl.Params}
		}
		ex.Order, ex.OrderSeed = "shuffle", r.Uint64()
		if r.Intn(4) == 0 { // a second package on the same long-lived contexts
			q := w.index.Names[r.Intn(n)]
			rc.Visits = append(rc.Visits, simapi.Visit{Pkg: q, Files: w.index.AllFiles(q)})
		}
	}
	wl.Concurrency = 0
	rc.Args = wl.Args()
	rc.Extra, _ = json.Marshal(ex)
}

type frameSnap struct {
	files    []FileFP
	info     uint64
	ctx      uint64
	registry uint64
	sentinel uint64
}

func takeSnap(files []*ast.File, cp *CorpusPkg, ctx *linter.Context) frameSnap {
	var s frameSnap
	for _, f := range files {
		s.files = append(s.files, fpFile(f))
	}
	s.info = fpInfo(cp.Pkg.TypesInfo)
	s.ctx = fpContext(ctx)
	s.registry = fpRegistry()
	s.sentinel = fpSentinels()
	return s
}

func safeCheck(c *linter.Checker, f *ast.File) (ws []linter.Warning, panicked string) {
	defer func() {
		if r := recover(); r != nil {
			panicked = fmt.Sprint(r)
		}
	}()
	// the returned slice aliases the checker's buffer: copy it
	ws = append([]linter.Warning(nil), c.Check(f)...)
	return
}

func (w *Worker) runC05Frame(rc *simapi.RunConfig) *simapi.RunResult {
	res := &simapi.RunResult{Stats: map[string]int64{}, Probes: map[string]int64{}}
	var ex c05Extra
	json.Unmarshal(rc.Extra, &ex)
	wl := w.parseWorkload(rc.Args)
	w.refDirty = nil
	w.refForVisits(wl, rc.Visits, false) // fills the table; looked up per checker below
	for _, d := range w.refDirty {
		res.Violations = append(res.Violations, simapi.Violation{Class: d[0], Identity: d[0] + ":" + d[1],
			Detail: fmt.Sprintf("%s, run alone by a fresh instance on %v (reference run), changed process-wide shared state (%s)", d[1], rc.Visits, d[0])})
	}
	simrt.SetMapPolicy(simrt.MapCanonical, 0)
	w.restoreParams()
	defer w.restoreParams()
	for c, ps := range wl.Params {
		for p, v := range ps {
			w.infoBy[c].Params[p].Value = v
		}
	}
	ctx := linter.NewContext(w.corpus.Fset, w.corpus.Sizes)
	ctx.SetGoVersion(wl.GoVersion)
	var checkers []*linter.Checker
	// constructors run on shared state too: the registry (they read their
	// parameters from it) and the sentinels must come out unchanged. The
	// context's Require flags are theirs to set and are not judged.
	regB, sentB := fpRegistry(), fpSentinels()
	var ctorVios []simapi.Violation
	for _, name := range wl.Checkers {
		c, err := linter.NewChecker(ctx, w.infoBy[name])
		if err != nil {
			res.Verdict = "skip"
			res.Notes = append(res.Notes, "constructor error: "+err.Error())
			return res
		}
		checkers = append(checkers, c)
		if r2, s2 := fpRegistry(), fpSentinels(); r2 != regB || s2 != sentB {
			what := "registered checker metadata or parameter values"
			if s2 != sentB {
				what = "an astcast nil-object sentinel"
			}
			ctorVios = append(ctorVios, simapi.Violation{Class: "mutated-by-constructor", Identity: "mutated-by-constructor:" + name,
				Detail: fmt.Sprintf("constructing %s changed %s", name, what)})
			regB, sentB = r2, s2
		}
		res.Stats["constructions"]++
	}
	res.Violations = append(res.Violations, ctorVios...)
	order := make([]int, len(checkers))
	for i := range order {
		order[i] = i
	}
	switch ex.Order {
	case "reverse":
		for i, j := 0, len(order)-1; i < j; i, j = i+1, j-1 {
			order[i], order[j] = order[j], order[i]
		}
	case "shuffle":
		order = simrt.NewRand(ex.OrderSeed, "order").Perm(len(order))
	}
	seenVio := map[string]bool{}
	addVio := func(class, checker, detail string) {
		id := class + ":" + checker
		if seenVio[id] || len(res.Violations) >= 8 {
			return
		}
		seenVio[id] = true
		res.Violations = append(res.Violations, simapi.Violation{Class: class, Identity: id, Detail: detail})
	}
	producers := map[string]bool{}
	for _, vis := range rc.Visits {
		cp := w.corpus.Pkgs[vis.Pkg]
		ctx.SetPackageInfo(cp.Pkg.TypesInfo, cp.Pkg.Types)
		for _, fi := range vis.Files {
			f := cp.Files[fi]
			ctx.SetFileInfo(cp.FileNames[fi], f)
			before := takeSnap(cp.Files, cp, ctx)
			for _, ci := range order {
				c := checkers[ci]
				name := c.Info.Name
				refE := w.refDiags(name, wl.Params[name], wl.GoVersion, vis.Pkg, fi)
				if refE.Panic != "" {
					res.Stats["ref_panics_skipped"]++
					continue
				}
				ws, pan := safeCheck(c, f)
				res.Stats["checks"]++
				after := takeSnap(cp.Files, cp, ctx)
				res.Stats["fingerprints"]++
				where := fmt.Sprintf("%s on %s/%s (position %d of order %q)", name, vis.Pkg, cp.FileNames[fi], ci, ex.Order)
				for k := range after.files {
					if after.files[k].All != before.files[k].All {
						addVio("ast-mutated", name, fmt.Sprintf("%s changed the syntax tree of %s: %s", where, cp.FileNames[k],
							diffFile(cp.Files[k], w.corpus.Fset, before.files[k], after.files[k])))
					}
				}
				if after.info != before.info {
					addVio("types-info-mutated", name, where+" changed the package's types.Info")
				}
				if after.ctx != before.ctx {
					addVio("context-mutated", name, where+" changed the shared linter.Context")
				}
				if after.registry != before.registry {
					addVio("registry-mutated", name, where+" changed registered checker metadata or parameter values")
				}
				if after.sentinel != before.sentinel {
					addVio("sentinel-mutated", name, where+" wrote through an astcast nil-object sentinel")
				}
				before = after
				if pan != "" {
					addVio("panic-after-others", name, where+" panicked although it does not panic when run alone: "+pan)
					continue
				}
				var got []Diag
				for _, wn := range ws {
					got = append(got, diagFromWarning(w.corpus.Fset, vis.Pkg, name, wn))
				}
				if len(got) > 0 {
					producers[name] = true
				}
				res.Stats["diagnostics"] += int64(len(got))
				a, b := sortedKeys(got, false), sortedKeys(refE.Diags, false)
				oa, ob := multisetDiff(a, b)
				if len(oa)+len(ob) > 0 {
					addVio("diag-depends-on-order", name, fmt.Sprintf("%s: differs from the run-alone reference: only here [%s]; only in reference [%s]",
						where, joinShort(oa, 3), joinShort(ob, 3)))
				}
			}
		}
	}
	if os.Getenv("GCSIM_DEBUG") != "" {
		res.Notes = append(res.Notes, fmt.Sprintf("NilBasicLit=%+v fp=%x", *astcast.NilBasicLit, fpSentinels()))
	}
	res.NonTrivial = len(checkers) >= 2 && res.Stats["diagnostics"] >= 1
	res.Stats["checkers"] = int64(len(checkers))
	res.Stats["producing_checkers"] = int64(len(producers))
	res.DecisionID = hashStrings(strings.Join(rc.Args, " "), fmt.Sprint(rc.Visits), string(rc.Extra))
	res.Digest = hashStrings(res.DecisionID, fmt.Sprint(res.Stats["diagnostics"], res.Stats["checks"]))
	return res
}

func (w *Worker) runC05Switch(rc *simapi.RunConfig) *simapi.RunResult {
	res := &simapi.RunResult{Stats: map[string]int64{}, Probes: map[string]int64{}}
	wl := w.parseWorkload(rc.Args)
	ref, panics := w.refForVisits(wl, rc.Visits, true)
	if len(panics) > 0 {
		res.Verdict = "skip"
		res.Notes = append(res.Notes, "reference panics (not judged): "+joinShort(panics, 3))
		return res
	}
	v := &rc.Variants[0]
	// one serial execution: calibration of change points and of the probe stride
	cal := w.execCLI(rc.Args, rc.Visits, &simapi.Variant{MapPolicy: simrt.MapCanonical,
		Sched: &simrt.SchedConfig{Strategy: simrt.StratPrio, PrioRule: simrt.PrioRandomMainLo, PrioSeed: 7, StepBudget: defaultBudget}}, false)
	if cal.InitErr != "" {
		res.Violations = append(res.Violations, simapi.Violation{Class: "init-error", Identity: "init-error", Detail: cal.InitErr})
		return res
	}
	if !cal.Attributed {
		// without the library-level hook there is no point "after configuration, before the
		// first checker" at which to take the registry baseline
		res.Verdict = "skip"
		res.Notes = append(res.Notes, "linter.(*Context).SetPackageInfo not found in this tree: switch-point fingerprints not applied")
		return res
	}
	if len(v.CPFrac) > 0 {
		resolve(v, cal.Sched.Steps)
	}
	if v.Sched.StepBudget == 0 {
		v.Sched.StepBudget = defaultBudget
	}
	v.Sched.ProbeAtSwitch = true
	cp := w.corpus.Pkgs[rc.Visits[0].Pkg]
	type base struct {
		files []FileFP
		info  uint64
		reg   uint64
		sent  uint64
	}
	var b0 base
	for _, f := range cp.Files {
		b0.files = append(b0.files, fpFile(f))
	}
	b0.info, b0.sent = fpInfo(cp.Pkg.TypesInfo), fpSentinels()
	// the registry baseline is taken after the front-end assigned the flag
	// values (its own, legitimate writes) and before any checker runs
	w.afterInit = func() { b0.reg = fpRegistry() }
	var probes, mismatches int64
	var first string
	hand := int64(0)
	simrt.ProbeHook = func(step int64, tid int32) {
		hand++
		// every hand-over for short runs, a deterministic stride for long ones
		stride := int64(1)
		if cal.Sched.Handovers > 400 {
			stride = cal.Sched.Handovers / 400
		}
		if hand%stride != 0 {
			return
		}
		probes++
		for k, f := range cp.Files {
			fp := fpFile(f)
			if fp.All != b0.files[k].All {
				mismatches++
				if first == "" {
					first = fmt.Sprintf("at step %d, when task %d was switched out, the syntax tree of %s/%s differed from its state at the start of the visit: %s",
						step, tid, cp.Name, cp.FileNames[k], diffFile(f, w.corpus.Fset, b0.files[k], fp))
				}
			}
		}
		if fpInfo(cp.Pkg.TypesInfo) != b0.info && first == "" {
			mismatches++
			first = fmt.Sprintf("at step %d (task %d switched out) types.Info differed from its state at the start of the visit", step, tid)
		}
		if fpSentinels() != b0.sent && first == "" {
			mismatches++
			first = fmt.Sprintf("at step %d (task %d switched out) an astcast sentinel was not a zero value", step, tid)
		}
		if fpRegistry() != b0.reg && first == "" {
			mismatches++
			first = fmt.Sprintf("at step %d (task %d switched out) the checker registry differed", step, tid)
		}
	}
	out := w.execCLI(rc.Args, rc.Visits, v, false)
	w.afterInit = nil
	simrt.ProbeHook = nil
	v.Sched.ProbeAtSwitch = true
	if mismatches > 0 {
		res.Violations = append(res.Violations, simapi.Violation{Class: "dirty-at-switch", Identity: "dirty-at-switch:" + cp.Name, Detail: first})
	}
	res.Violations = append(res.Violations, w.compareToRef(out, wl, rc.Visits, ref)...)
	res.NonTrivial = out.Sched.Interleaved >= 1 && probes >= 1
	res.Stats["probes_at_switch"] = probes
	res.Stats["steps"] = out.Sched.Steps
	res.Stats["handovers"] = out.Sched.Handovers
	res.Stats["interleaved_switches"] = out.Sched.Interleaved
	res.Stats["checkers"] = int64(len(out.Checkers))
	res.Stats["diagnostics"] += int64(len(out.Records))
	res.DecisionID = hashStrings(strings.Join(rc.Args, " "), fmt.Sprint(rc.Visits), fmt.Sprint(out.Sched.Hash))
	res.Digest = hashStrings(strings.Join(recordsText(out), ""), fmt.Sprint(out.Sched.Hash, out.Sched.Steps, probes))
	return res
}
