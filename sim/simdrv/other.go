package simdrv

import (
	"fmt"
	"os"
	"path/filepath"
	"runtime"
	"strings"

	"verif.local/gcsim/simapi"
)

// extraCorpus lists the hand-written corpus packages (x_<dir>), found next to
// the simulator sources.
func extraCorpus() map[string]string {
	root := os.Getenv("GCSIM_CORPUS")
	if root == "" {
		root = "/verif/sim/corpus"
	}
	out := map[string]string{}
	ents, err := os.ReadDir(root)
	if err != nil {
		return out
	}
	for _, e := range ents {
		if e.IsDir() {
			out["x_"+e.Name()] = filepath.Join(root, e.Name())
		}
	}
	// packages of a module that declares an older Go version
	old := filepath.Join(filepath.Dir(root), "oldmod")
	if ents, err := os.ReadDir(old); err == nil {
		for _, e := range ents {
			if e.IsDir() {
				out["o_"+e.Name()] = filepath.Join(old, e.Name())
			}
		}
	}
	for k, v := range realWorldCorpus() {
		out[k] = v
	}
	return out
}

// realWorldCorpus lists real code (r_<name>): small and medium packages of the
// standard library of the toolchain in use. The maintainers' examples exercise
// each checker on purpose-written snippets; real code brings the shapes nobody
// wrote on purpose (types with methods in sibling files, build-constrained
// files, long functions, generated tables, deep nesting). GCSIM_REALWORLD=0
// switches it off.
var corpusTier = "quick" // set from the job before the corpus is indexed

func realWorldCorpus() map[string]string {
	out := map[string]string{}
	if os.Getenv("GCSIM_REALWORLD") == "0" {
		return out
	}
	root := filepath.Join(runtime.GOROOT(), "src")
	// the quick tier takes six small packages, the thorough tier all of them
	list := []string{"container/list", "container/heap", "errors", "path", "encoding/hex", "text/tabwriter"}
	if corpusTier == "thorough" {
		list = append(list, "strings", "bytes", "bufio", "sort", "path/filepath", "encoding/csv", "flag", "go/token", "go/scanner", "net/url", "log", "mime", "text/scanner")
	}
	for _, p := range list {
		d := filepath.Join(root, filepath.FromSlash(p))
		if st, err := os.Stat(d); err == nil && st.IsDir() {
			out["r_"+strings.ReplaceAll(p, "/", "_")] = d
		}
	}
	return out
}

func extraNeeds(c *simapi.RunConfig) []string { return nil }

func (w *Worker) genOther(rc *simapi.RunConfig) error {
	return fmt.Errorf("no generator for property %s", rc.Prop)
}

func (w *Worker) runOther(rc *simapi.RunConfig) *simapi.RunResult {
	return &simapi.RunResult{Verdict: "harness-error", Notes: []string{"unknown run kind " + rc.Kind}}
}
