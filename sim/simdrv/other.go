package simdrv

import (
	"fmt"
	"os"
	"path/filepath"

	"verif.local/gcsim/simapi"
)

// extraCorpus lists the hand-written corpus packages (x_<dir>), found next to
// the simulator sources.
func extraCorpus() map[string]string {
	root := os.Getenv("GCSIM_CORPUS")
	if root == "" {
		root = "/verif/sim/corpus"
	}
	out := map[string]string{}
	ents, err := os.ReadDir(root)
	if err != nil {
		return out
	}
	for _, e := range ents {
		if e.IsDir() {
			out["x_"+e.Name()] = filepath.Join(root, e.Name())
		}
	}
	// packages of a module that declares an older Go version
	old := filepath.Join(filepath.Dir(root), "oldmod")
	if ents, err := os.ReadDir(old); err == nil {
		for _, e := range ents {
			if e.IsDir() {
				out["o_"+e.Name()] = filepath.Join(old, e.Name())
			}
		}
	}
	return out
}

func extraNeeds(c *simapi.RunConfig) []string { return nil }

func (w *Worker) genOther(rc *simapi.RunConfig) error {
	return fmt.Errorf("no generator for property %s", rc.Prop)
}

func (w *Worker) runOther(rc *simapi.RunConfig) *simapi.RunResult {
	return &simapi.RunResult{Verdict: "harness-error", Notes: []string{"unknown run kind " + rc.Kind}}
}
