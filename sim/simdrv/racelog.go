package simdrv

import (
	"fmt"
	"os"
	"regexp"
	"sort"
	"strings"
)

// readNewRaceLog returns what the race detector appended to its log since the
// last call (GORACE log_path=<prefix> writes <prefix>.<pid>).
func (w *Worker) readNewRaceLog() string {
	if w.raceLog == "" {
		return ""
	}
	path := fmt.Sprintf("%s.%d", w.raceLog, os.Getpid())
	b, err := os.ReadFile(path)
	if err != nil {
		return ""
	}
	if int64(len(b)) <= w.raceOff {
		return ""
	}
	s := string(b[w.raceOff:])
	w.raceOff = int64(len(b))
	return s
}

// raceRepoDir is the tree the binary was built from (frames are named relative to it).
var raceRepoDir = "/repo"

func raceFrameRE() *regexp.Regexp {
	return regexp.MustCompile(`(?m)^\s+` + regexp.QuoteMeta(strings.TrimSuffix(raceRepoDir, "/")) + `/([^\s:]+:\d+)`)
}

// raceClasses extracts, per report, the pair of top-most /repo frames of the
// two conflicting accesses: the "race class" used to de-duplicate reports and
// to identify a finding.
func raceClasses(text string) []string {
	var out []string
	frameRE := raceFrameRE()
	for _, rep := range strings.Split(text, "WARNING: DATA RACE") {
		if !strings.Contains(rep, "by goroutine") && !strings.Contains(rep, "by main goroutine") {
			continue
		}
		// split into the access blocks
		blocks := regexp.MustCompile(`(?m)^(Write|Read|Previous write|Previous read|Atomic|Previous atomic)[^\n]*\n`).Split(rep, -1)
		var tops []string
		for _, b := range blocks[1:] {
			// stop at the goroutine-creation section
			if i := strings.Index(b, "Goroutine "); i >= 0 {
				b = b[:i]
			}
			m := frameRE.FindStringSubmatch(b)
			if m != nil {
				tops = append(tops, m[1])
			} else {
				tops = append(tops, "?")
			}
			if len(tops) == 2 {
				break
			}
		}
		sort.Strings(tops)
		out = append(out, strings.Join(tops, " <-> "))
	}
	return out
}
