package simdrv

import (
	"fmt"
	"go/token"
	"hash/fnv"
	"path/filepath"
	"regexp"
	"sort"
	"strconv"
	"strings"

	"github.com/go-critic/go-critic/linter"
	"verif.local/gcsim/simrt"
)

// Diag is a diagnostic resolved to file/line/column, comparable across file sets.
type Diag struct {
	Pkg     string `json:"pkg,omitempty"`
	File    string `json:"file"` // base name
	Line    int    `json:"line"`
	Col     int    `json:"col"`
	Checker string `json:"checker"`
	Text    string `json:"text"`
	HasFix  bool   `json:"has_fix,omitempty"`
	FixFrom string `json:"fix_from,omitempty"` // line:col
	FixTo   string `json:"fix_to,omitempty"`
	FixText string `json:"fix_text,omitempty"`
}

func (d Diag) Key() string {
	s := fmt.Sprintf("%s/%s:%d:%d: %s: %s", d.Pkg, d.File, d.Line, d.Col, d.Checker, d.Text)
	if d.HasFix {
		s += fmt.Sprintf(" [fix %s-%s %q]", d.FixFrom, d.FixTo, d.FixText)
	}
	return s
}

// KeyNoFix is what the CLI output can show (the CLI does not print fixes).
func (d Diag) KeyNoFix() string {
	return fmt.Sprintf("%s/%s:%d:%d: %s: %s", d.Pkg, d.File, d.Line, d.Col, d.Checker, d.Text)
}

func diagFromWarning(fset *token.FileSet, pkg, checker string, w linter.Warning) Diag {
	pos := fset.Position(w.Pos)
	d := Diag{Pkg: pkg, File: filepath.Base(pos.Filename), Line: pos.Line, Col: pos.Column, Checker: checker, Text: w.Text}
	if w.HasQuickFix() {
		d.HasFix = true
		f, t := fset.Position(w.Suggestion.From), fset.Position(w.Suggestion.To)
		d.FixFrom = fmt.Sprintf("%d:%d", f.Line, f.Column)
		d.FixTo = fmt.Sprintf("%d:%d", t.Line, t.Column)
		d.FixText = string(w.Suggestion.Replacement)
	}
	return d
}

func sortedKeys(ds []Diag, nofix bool) []string {
	out := make([]string, len(ds))
	for i, d := range ds {
		if nofix {
			out[i] = d.KeyNoFix()
		} else {
			out[i] = d.Key()
		}
	}
	sort.Strings(out)
	return out
}

// multisetDiff returns elements only in a and only in b (both sorted inputs).
func multisetDiff(a, b []string) (onlyA, onlyB []string) {
	i, j := 0, 0
	for i < len(a) && j < len(b) {
		switch {
		case a[i] == b[j]:
			i++
			j++
		case a[i] < b[j]:
			onlyA = append(onlyA, a[i])
			i++
		default:
			onlyB = append(onlyB, b[j])
			j++
		}
	}
	onlyA = append(onlyA, a[i:]...)
	onlyB = append(onlyB, b[j:]...)
	return
}

func hashStrings(ss ...string) string {
	h := fnv.New64a()
	for _, s := range ss {
		h.Write([]byte(s))
		h.Write([]byte{0})
	}
	return strconv.FormatUint(h.Sum64(), 16)
}

// ---------------------------------------------------------------------------
// Capturing what the CLI prints. The standard logger performs exactly one
// Write per Printf, so one Write is one record even when a message contains
// line breaks.
// ---------------------------------------------------------------------------

type logRecord struct {
	Visit int
	Task  int32 // simulator task that printed it (-1 when the scheduler is off)
	Live  int32 // tasks alive at that moment
	Text  string
}

type logSink struct {
	visit   int
	records []logRecord
}

func (s *logSink) Write(p []byte) (int, error) {
	s.records = append(s.records, logRecord{Visit: s.visit, Task: simrt.CurrentTask(), Live: simrt.LiveTasks(), Text: string(p)})
	return len(p), nil
}

var cliLineRE = regexp.MustCompile(`(?s)^(.+?):(\d+):(\d+): ([A-Za-z0-9_]+): (.*)\n$`)

// parseCLIRecord turns "path:line:col: checker: text\n" into a Diag.
func parseCLIRecord(pkg, rec string) (Diag, bool) {
	m := cliLineRE.FindStringSubmatch(rec)
	if m == nil {
		return Diag{}, false
	}
	line, _ := strconv.Atoi(m[2])
	col, _ := strconv.Atoi(m[3])
	return Diag{Pkg: pkg, File: filepath.Base(m[1]), Line: line, Col: col, Checker: m[4], Text: m[5]}, true
}

func short(s string, n int) string {
	if len(s) <= n {
		return s
	}
	return s[:n] + "…"
}

func joinShort(ss []string, max int) string {
	if len(ss) > max {
		return strings.Join(ss[:max], " | ") + fmt.Sprintf(" | … (%d more)", len(ss)-max)
	}
	return strings.Join(ss, " | ")
}
