// Package simdrv is the in-process driver of the simulation. It is linked into
// the instrumented go-critic binary by an overlay shim (package main of
// cmd/go-critic cannot be imported, so the shim hands its unexported program
// type over as closures) and executes jobs given by the orchestrator.
package simdrv

import (
	"bufio"
	"encoding/json"
	"fmt"
	"log"
	"os"
	"runtime"
	"runtime/pprof"
	"sort"
	"strconv"
	"strings"
	"time"

	"github.com/go-critic/go-critic/linter"
	"verif.local/gcsim/simapi"
	"verif.local/gcsim/simrt"
)

// CLIHooks is how the shim exposes the command-line front-end: its real entry point.
type CLIHooks struct {
	Run func(args []string) error
}

// Worker is the per-process state.
type Worker struct {
	hooks     CLIHooks
	job       *simapi.Job
	corpus    *Corpus
	index     *CorpusIndex
	need      []string
	afterInit func()
	stripped  bool
	schedule  []string
	refDirty  [][2]string // (class, checker): process-wide state changed by a reference run
	ref       *Corpus     // independent second load, used only by the reference model
	refTable  *RefTable
	infos     []*linter.CheckerInfo
	infoBy    map[string]*linter.CheckerInfo
	defaults  map[string]map[string]any
	out       *bufio.Writer
	outFile   *os.File
	sink      *logSink
	curRun    *simapi.RunConfig
	raceLog   string
	raceOff   int64
	// yield sites of the front-end's functions the driver hooks (-1: not found in this tree)
	siteRunCheckers  int32
	siteCheckPackage int32
}

func (w *Worker) emit(r *simapi.RunResult) {
	b, err := json.Marshal(r)
	if err != nil {
		panic(err)
	}
	w.out.Write(b)
	w.out.WriteByte('\n')
	w.out.Flush()
}

// Main is called by the overlay shim's func main.
func Main(h CLIHooks) {
	if len(os.Args) != 2 {
		fmt.Fprintln(os.Stderr, "usage: gcsim-worker <job.json>")
		os.Exit(2)
	}
	data, err := os.ReadFile(os.Args[1])
	if err != nil {
		fmt.Fprintln(os.Stderr, err)
		os.Exit(2)
	}
	var job simapi.Job
	if err := json.Unmarshal(data, &job); err != nil {
		fmt.Fprintln(os.Stderr, "job:", err)
		os.Exit(2)
	}
	w := &Worker{hooks: h, job: &job}
	if job.Tier != "" {
		corpusTier = job.Tier
	}
	f, err := os.Create(job.Out)
	if err != nil {
		fmt.Fprintln(os.Stderr, err)
		os.Exit(2)
	}
	w.outFile = f
	w.out = bufio.NewWriter(f)
	w.sink = &logSink{}
	log.SetFlags(0) // as the shipped main does
	log.SetOutput(w.sink)
	w.raceLog = os.Getenv("GCSIM_RACE_LOG")

	w.infos = linter.GetCheckersInfo()
	w.infoBy = map[string]*linter.CheckerInfo{}
	w.defaults = map[string]map[string]any{}
	for _, info := range w.infos {
		w.infoBy[info.Name] = info
		m := map[string]any{}
		for k, p := range info.Params {
			m[k] = p.Value
		}
		w.defaults[info.Name] = m
	}

	w.findSites()
	simrt.OnAbort = w.onAbort
	startWatchdog()

	if err := w.run(); err != nil {
		fmt.Fprintln(os.Stderr, "gcsim-worker:", err)
		os.Exit(2)
	}
	os.Exit(0)
}

// restoreParams puts every registered parameter back to its registered default
// (the CLI writes flag values into the registry, which is process-wide).
func (w *Worker) restoreParams() {
	for _, info := range w.infos {
		for k, p := range info.Params {
			p.Value = w.defaults[info.Name][k]
		}
	}
}

func (w *Worker) onAbort(kind int, st simrt.SchedStats) {
	// Runs on whatever task hit the condition; the process is beyond repair
	// (real goroutines are parked), so report and exit.
	class := map[int]string{simrt.AbortDeadlock: "deadlock", simrt.AbortBudget: "step-budget-exceeded", simrt.AbortInternal: "harness-internal"}[kind]
	r := &simapi.RunResult{Verdict: "violation", Config: w.curRun}
	if w.curRun != nil {
		r.Index = w.curRun.Index
	}
	if kind == simrt.AbortInternal {
		r.Verdict = "harness-error"
		r.Notes = append(r.Notes, "internal abort: "+simrt.AbortReason())
		fmt.Fprintln(os.Stderr, "gcsim-worker: internal abort:", simrt.AbortReason())
	}
	r.Violations = []simapi.Violation{{Class: class, Identity: class, Detail: fmt.Sprintf("scheduler abort (%s) at step %d after %d decisions, %d tasks", class, st.Steps, st.Decisions, st.Tasks)}}
	r.Stats = map[string]int64{"steps": st.Steps, "handovers": st.Handovers}
	if w.curRun != nil && w.curRun.Variants == nil {
		// nothing
	}
	// attach the decision list so the run can be replayed explicitly
	dec := simrt.Decisions()
	if b, err := json.Marshal(dec); err == nil && len(b) < 4<<20 {
		r.Sample = b
	}
	w.emit(r)
	w.outFile.Sync()
	os.Exit(70 + kind)
}

// startWatchdog kills the process when the logical clock stops while a
// simulation is active: that is harness trouble (a task really blocked while
// holding the baton), never a verdict.
func startWatchdog() {
	go func() {
		last, lastT := int64(-1), time.Now()
		for {
			time.Sleep(2 * time.Second)
			if !simrt.Active() {
				last, lastT = -1, time.Now()
				continue
			}
			s := simrt.Steps()
			if s != last {
				last, lastT = s, time.Now()
				continue
			}
			if time.Since(lastT) > 600*time.Second {
				fmt.Fprintln(os.Stderr, "gcsim-worker: watchdog: logical clock stopped for 600s; harness trouble")
				os.Exit(75)
			}
		}
	}()
}

func (w *Worker) run() error {
	job := w.job
	t0 := time.Now()
	var err error
	if job.RepoDir != "" {
		raceRepoDir = job.RepoDir
	}
	w.index, err = BuildIndex(job.RepoDir, extraCorpus())
	if err != nil {
		return err
	}
	// generate this worker's runs first: only the packages they visit are loaded
	var todo []*simapi.RunConfig
	switch job.Mode {
	case "runs":
		stride := job.Stride
		if stride <= 0 {
			stride = 1
		}
		var idxs []int
		for i := job.From; i < job.To; i += stride {
			idxs = append(idxs, i)
		}
		if len(job.Indices) > 0 {
			idxs = job.Indices
		}
		for _, i := range idxs {
			rc, err := w.generate(job.Prop, job.Tier, job.Seed, i)
			if err != nil {
				return err
			}
			todo = append(todo, rc)
		}
	case "replay":
		for i := range job.Configs {
			todo = append(todo, &job.Configs[i])
		}
	case "ref":
		idxs := job.Indices
		if len(idxs) == 0 {
			stride := job.Stride
			if stride <= 0 {
				stride = 1
			}
			for i := job.From; i < job.To; i += stride {
				idxs = append(idxs, i)
			}
		}
		for _, i := range idxs {
			rc, err := w.generate(job.Prop, job.Tier, job.Seed, i)
			if err != nil {
				return err
			}
			todo = append(todo, rc)
		}
	default:
		return fmt.Errorf("unknown job mode %q", job.Mode)
	}
	need := corpusNeeds(todo)
	w.need = need
	w.refTable = newRefTable()
	if job.RefPath != "" && job.Mode != "ref" {
		if err := w.refTable.load(job.RefPath); err != nil {
			return err
		}
		if w.refTable.Steps == nil {
			w.refTable.Steps = map[string]int64{}
		}
	}
	refc := make(chan error, 1)
	go func() {
		var e error
		if job.RefPath == "" || job.Mode == "ref" {
			// without a precomputed table the reference corpus is needed right away
			w.ref, e = LoadCorpus(job.RepoDir, need, extraCorpus(), w.twinOrder())
		}
		refc <- e
	}()
	w.corpus, err = LoadCorpus(job.RepoDir, need, extraCorpus(), FsetOrder{})
	if err != nil {
		return err
	}
	if err := <-refc; err != nil {
		return err
	}
	loadMs := time.Since(t0).Milliseconds()

	if err := w.index.Verify(w.corpus); err != nil {
		return err
	}
	if job.Mode == "ref" {
		// reference phase (plain build): the reference diagnostics and the
		// serial step counts the race build will need
		for _, rc := range todo {
			w.precompute(rc)
		}
		if err := w.refTable.save(job.RefPath); err != nil {
			return err
		}
		w.emit(&simapi.RunResult{Done: true, Proc: map[string]any{"ref_entries_computed": w.refTable.computed}})
		return nil
	}
	var next *int
	for i, rc := range todo {
		w.execOne(rc)
		if hp := os.Getenv("GCSIM_HEAPPROF"); hp != "" && i%100 == 99 {
			// debugging aid: what a long-lived worker retains
			runtime.GC()
			if f, err := os.Create(fmt.Sprintf("%s.%d", hp, i+1)); err == nil {
				pprof.WriteHeapProfile(f)
				f.Close()
			}
		}
		// The program under test was written for one analysis per process: every
		// construction of an embedded rule-group checker imports its packages from source
		// into one process-wide file set (checkers.InitEmbeddedRules), which only grows.
		// A worker that has executed hundreds of runs is recycled before that matters.
		if job.Mode == "runs" && len(job.Indices) == 0 && i+1 < len(todo) && i%8 == 7 && heapOverLimit() {
			n := todo[i+1].Index
			next = &n
			break
		}
	}
	ds, tot := simrt.SiteHits()
	seen, multi, unctl := simrt.MapSiteTable()
	ix2, _ := BuildIndex(job.RepoDir, extraCorpus())
	corpusDigest := w.index.Digest(w.index.Dirs)
	if ix2 == nil || ix2.Digest(ix2.Dirs) != corpusDigest {
		corpusDigest += "+changed-while-running"
	}
	proc := map[string]any{"load_ms": loadMs, "yield_sites_hit": ds, "yields_total": tot, "corpus_digest": corpusDigest,
		"map_sites_seen": keysOf(seen), "map_sites_multi": keysOf(multi), "map_sites_uncontrolled": keysOf(unctl),
		"ref_entries_computed": w.refTable.computed, "race_build": raceEnabled}
	w.emit(&simapi.RunResult{Done: true, Proc: proc, Next: next})
	return nil
}

// heapOverLimit: live heap beyond GCSIM_RECYCLE_MB (default 1000) after a collection.
func heapOverLimit() bool {
	limit := uint64(1000)
	if v, err := strconv.Atoi(os.Getenv("GCSIM_RECYCLE_MB")); err == nil && v > 0 {
		limit = uint64(v)
	}
	var ms runtime.MemStats
	runtime.ReadMemStats(&ms)
	if ms.HeapAlloc>>20 <= limit {
		return false
	}
	runtime.GC()
	runtime.ReadMemStats(&ms)
	return ms.HeapAlloc>>20 > limit
}

func keysOf(m map[int]uint32) []int {
	out := make([]int, 0, len(m))
	for k := range m {
		out = append(out, k)
	}
	sort.Ints(out)
	return out
}

func corpusNeeds(todo []*simapi.RunConfig) []string {
	set := map[string]bool{}
	for _, c := range todo {
		for _, v := range c.Visits {
			set[strings.TrimPrefix(v.Pkg, "ref:")] = true
		}
		for _, n := range extraNeeds(c) {
			set[n] = true
		}
	}
	var out []string
	for n := range set {
		out = append(out, n)
	}
	if len(out) == 0 {
		return []string{"sanity"} // keep the loader non-empty
	}
	sort.Strings(out)
	return out
}

func (w *Worker) execOne(rc *simapi.RunConfig) {
	idx := rc.Index
	w.emit(&simapi.RunResult{Start: &idx, Index: idx, Config: rc})
	w.curRun = rc
	t0 := time.Now()
	var r *simapi.RunResult
	switch rc.Kind {
	case "cli-determinism":
		r = w.runC02(rc)
	case "cli-history":
		r = w.runC03(rc)
	case "cli-sched":
		r = w.runC04CLI(rc)
	case "analyzer-determinism":
		r = w.runC02Analyzer(rc)
	case "analyzer-history":
		r = w.runC03Analyzer(rc)
	case "analyzer-sched":
		r = w.runC04Analyzer(rc)
	case "analyzer-config":
		r = w.runC19(rc)
	case "decl-perm":
		r = w.runC13Perm(rc)
	case "source-transform":
		r = w.runC13Source(rc)
	case "rulefs":
		r = w.runC18(rc)
	case "lib-frame":
		r = w.runC05Frame(rc)
	case "cli-switch-fp":
		r = w.runC05Switch(rc)
	default:
		r = w.runOther(rc)
	}
	r.Index = rc.Index
	r.Config = rc
	r.WallMs = time.Since(t0).Milliseconds()
	if len(r.Violations) > 0 {
		r.Verdict = "violation"
	} else if r.Verdict == "" {
		r.Verdict = "ok"
	}
	w.curRun = nil
	w.emit(r)
}

// precompute fills the reference table for one run.
func (w *Worker) precompute(rc *simapi.RunConfig) {
	if len(rc.Visits) == 0 || len(rc.Args) == 0 {
		return
	}
	wl := w.parseWorkload(rc.Args)
	w.refForVisits(wl, rc.Visits, strings.HasPrefix(rc.Kind, "cli-"))
	needCal := false
	for _, v := range rc.Variants {
		if len(v.CPFrac) > 0 {
			needCal = true
		}
	}
	if needCal {
		w.refTable.Steps[fmt.Sprint(rc.Index)] = w.estimateSteps(wl, rc.Visits)
	}
}

func (w *Worker) generate(prop, tier string, seed uint64, i int) (*simapi.RunConfig, error) {
	rs := simrt.NewRand(seed, fmt.Sprintf("%s/%d", prop, i)).Uint64()
	rc := &simapi.RunConfig{Prop: prop, Tier: tier, Index: i, Seed: seed, RunSeed: rs}
	switch prop {
	case "C02":
		w.genC02(rc)
	case "C03":
		w.genC03(rc)
	case "C04":
		w.genC04(rc)
	case "C05":
		w.genC05(rc)
	case "C13":
		w.genC13(rc)
	case "C18":
		w.genC18(rc)
	case "C19":
		w.genC19(rc)
	default:
		if err := w.genOther(rc); err != nil {
			return nil, err
		}
	}
	return rc, nil
}
