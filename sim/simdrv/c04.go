package simdrv

import (
	"fmt"
	"strings"

	"verif.local/gcsim/simapi"
	"verif.local/gcsim/simrt"
)

// C04 (CLI half): checkFile as shipped - N goroutines, the semaphore, the
// WaitGroup barrier, the result slots and the printing loop - under the
// seeded scheduler, judged by (1) equality with the sequential reference,
// (2) the race detector, (3) liveness.

func (w *Worker) genC04(rc *simapi.RunConfig) {
	if rc.Index%3 == 2 {
		w.genC04Analyzer(rc)
		return
	}
	r := simrt.NewRand(rc.RunSeed, "work")
	rc.Kind = "cli-sched"
	pkgs := w.pickPkgs(r, rc.Index, 1+r.Intn(2))
	for _, p := range pkgs {
		rc.Visits = append(rc.Visits, simapi.Visit{Pkg: p, Files: w.index.AllFiles(p)})
	}
	wl := w.genWorkload(r, pkgs, true)
	cliIndex := rc.Index - rc.Index/3
	saturation := false
	if isHandWritten(pkgs[0]) && (cliIndex/len(w.visitSchedule()))%2 == 0 && cliIndex%3 == 0 {
		saturation = true
		// saturation run: every checker at once over an interplay package, no
		// semaphore ordering between any two of them
		wl = &Workload{EnableAll: true, Params: wl.Params, Concurrency: 2 * len(w.infos)}
		for _, info := range w.infos {
			wl.Checkers = append(wl.Checkers, info.Name)
		}
	}
	if len(wl.Checkers) < 4 { // a schedule needs tasks to interleave
		for i := 0; i < 6; i++ {
			wl.Checkers = append(wl.Checkers, w.infos[r.Intn(len(w.infos))].Name)
		}
		wl.Checkers = uniqSorted(wl.Checkers)
	}
	rc.Args = wl.Args()
	sr := simrt.NewRand(rc.RunSeed, "sched")
	v := genVariant(sr, false)
	if rc.Index%11 == 0 {
		v = serialVariant()
	}
	if saturation {
		// All workers must be alive at the same time: the race detector reuses
		// the thread id of a finished goroutine for the next one created, and
		// accesses of the two then look like accesses of one thread. Main first
		// (spawn everything, then run the workers in a seeded order, with up to
		// two priority-change points) keeps them all alive.
		v = simapi.Variant{MapPolicy: v.MapPolicy, MapSeed: v.MapSeed,
			Sched: &simrt.SchedConfig{Strategy: simrt.StratPrio, PrioRule: simrt.PrioRandomMainHi, PrioSeed: sr.Uint64()}}
		for i := 0; i < int(sr.Uint64()%3); i++ {
			v.CPFrac = append(v.CPFrac, sr.Float64())
		}
	}
	rc.Variants = []simapi.Variant{v}
}

func uniqSorted(ss []string) []string {
	set := map[string]bool{}
	var out []string
	for _, s := range ss {
		if !set[s] {
			set[s] = true
			out = append(out, s)
		}
	}
	sortStrings(out)
	return out
}

func (w *Worker) runC04CLI(rc *simapi.RunConfig) *simapi.RunResult {
	res := &simapi.RunResult{Stats: map[string]int64{}, Probes: map[string]int64{}}
	wl := w.parseWorkload(rc.Args)
	ref, panics := w.refForVisits(wl, rc.Visits, true)
	if len(panics) > 0 {
		res.Verdict = "skip"
		res.Notes = append(res.Notes, "reference panics (C01 territory, not judged): "+joinShort(panics, 3))
		return res
	}
	// Directed runs: when two or more of the selected checkers touch lock-free code of the
	// instrumented packages on these files (learned from their reference runs), every other
	// run keeps only those - few tasks, all of them at the atomic operations - with no
	// semaphore ordering between them.
	if focus := w.atomicCheckers(wl, rc.Visits); len(focus) >= 2 && rc.Index%2 == 0 && rc.Expect == nil {
		wl.EnableAll = false
		wl.Checkers = focus
		wl.Concurrency = 2 * len(focus)
		rc.Args = wl.Args()
		ref, _ = w.refForVisits(wl, rc.Visits, true)
		res.Probes["atomic_focus_run"]++
		// A focus run is tiny (a handful of tasks, a few thousand steps), so it tries many
		// schedules - sandwich-priority schedules and dense random walks alternately - and
		// keeps the first one whose output differs from the reference as THE schedule of
		// this run (the replay file then holds exactly that one).
		fr := simrt.NewRand(rc.RunSeed, "focus")
		for j := 0; j < 48; j++ {
			fv := simapi.Variant{MapPolicy: rc.Variants[0].MapPolicy, MapSeed: rc.Variants[0].MapSeed}
			if j%2 == 0 {
				fv.Sched = &simrt.SchedConfig{Strategy: simrt.StratPrio, PrioRule: simrt.PrioRandomMainHi, PrioSeed: fr.Uint64(), StepBudget: defaultBudget}
			} else {
				fv.Sched = &simrt.SchedConfig{Strategy: simrt.StratRW, RWSeed: fr.Uint64(), RWMeanGap: 20, StepBudget: defaultBudget}
			}
			fo := w.execCLI(rc.Args, rc.Visits, &fv, false)
			res.Stats["focus_schedules"]++
			if fo.InitErr != "" || len(w.compareToRef(fo, wl, rc.Visits, ref)) > 0 || fo.Races > 0 {
				rc.Variants[0] = fv
				break
			}
		}
	}
	v := &rc.Variants[0]
	w.calibrate(rc, v, wl)
	out := w.execCLI(rc.Args, rc.Visits, v, false)
	if out.InitErr != "" {
		res.Violations = append(res.Violations, simapi.Violation{Class: "init-error", Identity: "init-error", Detail: out.InitErr})
		return res
	}
	// oracle 1: multiset equality with the sequential reference, each exactly once
	res.Violations = append(res.Violations, w.compareToRef(out, wl, rc.Visits, ref)...)
	// ... printed by the main task only (after the barrier)
	for _, r := range out.Records {
		if r.Task > 0 {
			res.Violations = append(res.Violations, simapi.Violation{Class: "printed-by-worker", Identity: "printed-by-worker",
				Detail: fmt.Sprintf("a diagnostic was printed by worker task %d while %d tasks were alive: %q", r.Task, r.Live, short(r.Text, 200))})
			break
		}
	}
	// oracle 2: the race detector
	if out.Races > 0 {
		classes := uniqSorted(raceClasses(out.RaceText))
		for _, c := range classes {
			res.Violations = append(res.Violations, simapi.Violation{Class: "race", Identity: "race:" + c,
				Detail: fmt.Sprintf("data race reported by the race detector between %s\n%s", c, short(out.RaceText, 3000))})
		}
		if len(classes) == 0 {
			res.Violations = append(res.Violations, simapi.Violation{Class: "race", Identity: "race:?", Detail: short(out.RaceText, 3000)})
		}
	}
	// oracle 3 (deadlock / budget) is enforced by the scheduler itself: see onAbort.
	res.NonTrivial = out.Sched.Interleaved >= 1
	res.Stats["steps"] = out.Sched.Steps
	res.Stats["handovers"] = out.Sched.Handovers
	res.Stats["interleaved_switches"] = out.Sched.Interleaved
	res.Stats["tasks"] = int64(out.Sched.Tasks)
	res.Stats["max_live_tasks"] = int64(out.Sched.MaxLive)
	res.Stats["blocked"] = out.Sched.BlockedTimes
	res.Stats["checkers"] = int64(len(out.Checkers))
	res.Stats["diagnostics"] = int64(len(out.Records))
	res.Stats["races"] = int64(out.Races)
	if out.Sched.SemaFull > 0 {
		res.Probes["semaphore_full_when_main_sent"] = out.Sched.SemaFull
	}
	res.Probes["concurrency_"+fmt.Sprint(wl.Concurrency)] = 1
	res.Probes["strategy_"+schedName(v.Sched)] = 1
	res.DecisionID = hashStrings(strings.Join(rc.Args, " "), fmt.Sprint(rc.Visits), fmt.Sprint(out.Sched.Hash, out.Map.Hash))
	res.Digest = hashStrings(strings.Join(recordsText(out), ""), fmt.Sprint(out.Sched.Hash, out.Map.Hash, out.Sched.Steps))
	res.DigestParts = []string{"records=" + hashStrings(strings.Join(recordsText(out), "")), fmt.Sprintf("n_records=%d handover_hash=%x map_hash=%x steps=%d", len(out.Records), out.Sched.Hash, out.Map.Hash, out.Sched.Steps)}
	return res
}

// atomicCheckers lists the selected checkers whose reference runs over the visited files
// passed an atomic operation.
func (w *Worker) atomicCheckers(wl *Workload, visits []simapi.Visit) []string {
	set := map[string]bool{}
	for _, vis := range visits {
		for _, fi := range vis.Files {
			for _, c := range wl.Checkers {
				if e := w.refDiagsCLI(wl, c, vis.Pkg, fi, vis.DeclSeed); e != nil && e.Atomic {
					set[c] = true
				}
			}
		}
	}
	var out []string
	for c := range set {
		out = append(out, c)
	}
	sortStrings(out)
	return out
}
