package simdrv

import (
	"encoding/json"
	"flag"
	"fmt"
	"go/token"
	"sort"
	"strings"
	"sync"

	"github.com/go-critic/go-critic/checkers/analyzer"
	"github.com/go-critic/go-critic/linter"
	"golang.org/x/tools/go/analysis"
	"verif.local/gcsim/simapi"
	"verif.local/gcsim/simrt"
)

// Stub go/analysis driver: it does what x/tools' checker and golangci-lint do
// with an analyzer - one goroutine per package action, all sharing the
// analyzer's process-wide state - with the goroutines under the simulator's
// scheduler. Analyzer.Run (runAnalyzer), prepareGocritic, newGocritic,
// createCheckers and every checker are the real code.

type anaExtra struct {
	Flags    map[string]string `json:"flags"`           // analyzer flags
	Parallel bool              `json:"parallel"`        // parallel passes under the scheduler, else sequential
	Order    []int             `json:"order"`           // order in which passes are started
	Fault    string            `json:"fault,omitempty"` // injected configuration fault (C19)
	// Lib: the driver does not go through the analyzer package but uses the library the way
	// an embedding driver does (golangci-lint's shape): per package action a fresh
	// linter.Context and fresh checkers - hand-written AND embedded rule groups, which the
	// analyzer package cannot offer (its registry snapshot predates their registration).
	Lib bool `json:"lib,omitempty"`
}

// PassOutcome is what one pass produced.
type PassOutcome struct {
	Pkg    string
	Diags  []Diag
	Err    string
	Panic  string
	Enter  int64 // logical time of entry (global step)
	Return int64
}

func (w *Worker) resetAnalyzer() {
	if simrt.AnalyzerReset == nil {
		panic("analyzer shim not linked")
	}
	simrt.AnalyzerReset()
	analyzer.Analyzer.Flags.VisitAll(func(f *flag.Flag) { f.Value.Set(f.DefValue) })
	w.restoreParams()
}

// passPkg resolves a pass target: "name" is the corpus package, "ref:name" the
// independently loaded second copy of the same package (own file set, own
// syntax trees, own types) - two passes over the two copies execute the same
// checkers over identical code without sharing any input, which is exactly the
// situation of a driver analysing two similar packages in parallel.
func (w *Worker) passPkg(name string) (*Corpus, *CorpusPkg, string) {
	if strings.HasPrefix(name, "ref:") {
		c := w.refCorpus()
		return c, c.Pkgs[strings.TrimPrefix(name, "ref:")], strings.TrimPrefix(name, "ref:")
	}
	return w.corpus, w.corpus.Pkgs[name], name
}

func (w *Worker) makePass(c *Corpus, cp *CorpusPkg, sink *[]analysis.Diagnostic) *analysis.Pass {
	return &analysis.Pass{
		Analyzer:   analyzer.Analyzer,
		Fset:       c.Fset,
		Files:      cp.Files,
		Pkg:        cp.Pkg.Types,
		TypesInfo:  cp.Pkg.TypesInfo,
		TypesSizes: c.Sizes,
		Report:     func(d analysis.Diagnostic) { *sink = append(*sink, d) },
		ResultOf:   map[*analysis.Analyzer]interface{}{},
	}
}

func (w *Worker) diagFromAnalysis(fset *token.FileSet, pkg string, d analysis.Diagnostic) Diag {
	pos := fset.Position(d.Pos)
	name, text, _ := strings.Cut(d.Message, ": ")
	out := Diag{Pkg: pkg, File: baseName(pos.Filename), Line: pos.Line, Col: pos.Column, Checker: name, Text: text}
	if len(d.SuggestedFixes) > 0 && len(d.SuggestedFixes[0].TextEdits) > 0 {
		e := d.SuggestedFixes[0].TextEdits[0]
		f, t := fset.Position(e.Pos), fset.Position(e.End)
		out.HasFix = true
		out.FixFrom = fmt.Sprintf("%d:%d", f.Line, f.Column)
		out.FixTo = fmt.Sprintf("%d:%d", t.Line, t.Column)
		out.FixText = string(e.NewText)
	}
	return out
}

func baseName(p string) string {
	if i := strings.LastIndexByte(p, '/'); i >= 0 {
		return p[i+1:]
	}
	return p
}

// AnaOutcome is one simulated driver process.
type AnaOutcome struct {
	FlagErr string
	Passes  []PassOutcome
	Sched   simrt.SchedStats
	Races   int
	RaceTxt string
	Log     []logRecord
}

// execAnalyzer simulates one driver process: reset, set flags, run the passes.
func (w *Worker) execAnalyzer(ex *anaExtra, pkgs []string, v *simapi.Variant) *AnaOutcome {
	out := &AnaOutcome{}
	w.resetAnalyzer()
	defer w.resetAnalyzer()
	w.sink.records = nil
	w.sink.visit = 0
	simrt.SetMapPolicy(v.MapPolicy, v.MapSeed)
	var names []string
	for k := range ex.Flags {
		names = append(names, k)
	}
	sort.Strings(names)
	for _, k := range names {
		if err := analyzer.Analyzer.Flags.Set(k, ex.Flags[k]); err != nil {
			out.FlagErr = fmt.Sprintf("flag -%s=%s: %v", k, ex.Flags[k], err)
			return out
		}
	}
	n := len(pkgs)
	out.Passes = make([]PassOutcome, n)
	sinks := make([][]analysis.Diagnostic, n)
	runPass := func(i int) {
		po := &out.Passes[i]
		po.Pkg = pkgs[i]
		po.Enter = simrt.Steps()
		defer func() {
			if r := recover(); r != nil {
				po.Panic = fmt.Sprint(r)
			}
			po.Return = simrt.Steps()
		}()
		c, cp, _ := w.passPkg(pkgs[i])
		if ex.Lib {
			ctx := linter.NewContext(c.Fset, c.Sizes)
			var cs []*linter.Checker
			for _, name := range strings.Split(ex.Flags["enable"], ",") {
				info := w.infoBy[name]
				if info == nil {
					continue
				}
				ch, err := linter.NewChecker(ctx, info)
				if err != nil {
					po.Err = err.Error()
					return
				}
				cs = append(cs, ch)
			}
			ctx.SetPackageInfo(cp.Pkg.TypesInfo, cp.Pkg.Types)
			for fi, f := range cp.Files {
				ctx.SetFileInfo(cp.FileNames[fi], f)
				for _, ch := range cs {
					for _, wn := range ch.Check(f) {
						sinks[i] = append(sinks[i], analysis.Diagnostic{Pos: wn.Pos, Message: ch.Info.Name + ": " + wn.Text})
					}
				}
			}
			return
		}
		pass := w.makePass(c, cp, &sinks[i])
		_, err := analyzer.Analyzer.Run(pass)
		if err != nil {
			po.Err = err.Error()
		}
	}
	order := ex.Order
	if len(order) != n {
		order = make([]int, n)
		for i := range order {
			order[i] = i
		}
	}
	race0 := raceErrors()
	if ex.Parallel && v.Sched != nil {
		simrt.Start(v.Sched)
		var wg sync.WaitGroup
		simrt.WGAdd(&wg, n)
		for _, i := range order {
			i := i
			t := simrt.Spawn()
			go func() {
				simrt.TaskBegin(t)
				defer simrt.TaskEnd(t)
				defer simrt.WGDone(&wg)
				runPass(i)
			}()
			simrt.Spawned()
		}
		simrt.WGWait(&wg)
		simrt.Drain()
		out.Sched = simrt.Stop()
	} else {
		for _, i := range order {
			runPass(i)
		}
	}
	out.Races = raceErrors() - race0
	if out.Races > 0 {
		out.RaceTxt = w.readNewRaceLog()
	}
	for i := range out.Passes {
		c, _, plain := w.passPkg(pkgs[i])
		for _, d := range sinks[i] {
			out.Passes[i].Diags = append(out.Passes[i].Diags, w.diagFromAnalysis(c.Fset, plain, d))
		}
	}
	out.Log = append([]logRecord(nil), w.sink.records...)
	return out
}

// handWritten returns the checkers the analyzer can offer: its registry
// snapshot is taken at package initialisation, before the embedded rule groups
// are registered.
func (w *Worker) handWritten() []string {
	var out []string
	for _, info := range w.infos {
		if !info.EmbeddedRuleguard {
			out = append(out, info.Name)
		}
	}
	return out
}

func (w *Worker) genC04Analyzer(rc *simapi.RunConfig) {
	r := simrt.NewRand(rc.RunSeed, "work")
	rc.Kind = "analyzer-sched"
	ks := []int{2, 3, 5}
	k := ks[r.Intn(len(ks))]
	var pkgs []string
	twins := r.Intn(3) != 0
	if twins {
		// the package and its independently loaded twin (plus more pairs): the
		// same checkers run over identical code in parallel passes
		base := w.pickPkgs(r, rc.Index/3, (k+1)/2)
		for _, p := range base {
			pkgs = append(pkgs, p, "ref:"+p)
		}
		pkgs = pkgs[:k]
		if k == 3 {
			pkgs = []string{base[0], "ref:" + base[0], base[1]}
		}
	} else {
		pkgs = w.pickPkgs(r, rc.Index/3, k)
	}
	for _, p := range pkgs {
		rc.Visits = append(rc.Visits, simapi.Visit{Pkg: p, Files: w.index.AllFiles(strings.TrimPrefix(p, "ref:"))})
	}
	ex := anaExtra{Flags: map[string]string{}, Parallel: true}
	hw := w.handWritten()
	if r.Intn(3) == 0 {
		// the library under an embedding parallel driver: every registered checker is on offer
		ex.Lib = true
		hw = nil
		for _, info := range w.infos {
			if info.Name != "ruleguard" {
				hw = append(hw, info.Name)
			}
		}
	}
	sel := map[string]bool{}
	for _, p := range pkgs {
		p = strings.TrimPrefix(p, "ref:")
		for _, h := range hw {
			if h == p {
				sel[p] = true
			}
		}
	}
	extra := []int{3, 10, len(hw), len(hw)}[r.Intn(4)]
	if ex.Lib && extra == len(hw) {
		extra = 25 // every embedded group builds its own rule engine per package action: a sample, not all 106
	}
	if extra == len(hw) {
		for _, h := range hw {
			sel[h] = true
		}
	}
	for i := 0; i < extra; i++ {
		sel[hw[r.Intn(len(hw))]] = true
	}
	delete(sel, "ruleguard")
	var names []string
	for s := range sel {
		names = append(names, s)
	}
	sort.Strings(names)
	if r.Intn(3) == 0 && !ex.Lib {
		names = append(names, "ruleguard")
		sort.Strings(names)
		ex.Flags["@ruleguard.rules"] = rulesGlob()
	}
	ex.Flags["enable"] = strings.Join(names, ",")
	ex.Flags["disable"] = ""
	if r.Intn(3) == 0 {
		ex.Flags["@hugeParam.sizeThreshold"] = fmt.Sprint([]int{1, 40, 80, 256}[r.Intn(4)])
	}
	ex.Order = r.Perm(k)
	rc.Extra, _ = json.Marshal(ex)
	sr := simrt.NewRand(rc.RunSeed, "sched")
	v := genVariant(sr, false)
	rc.Variants = []simapi.Variant{v}
}

func passKeys(p *PassOutcome) []string { return sortedKeys(p.Diags, false) }

func (w *Worker) runC04Analyzer(rc *simapi.RunConfig) *simapi.RunResult {
	res := &simapi.RunResult{Stats: map[string]int64{}, Probes: map[string]int64{}}
	var ex anaExtra
	json.Unmarshal(rc.Extra, &ex)
	var pkgs []string
	for _, v := range rc.Visits {
		pkgs = append(pkgs, v.Pkg)
	}
	// sequential reference: the same passes, one after the other, scheduler off
	seq := *(&ex)
	seq.Parallel = false
	seq.Order = nil
	ref := w.execAnalyzer(&seq, pkgs, &simapi.Variant{MapPolicy: simrt.MapCanonical})
	if ref.FlagErr != "" {
		res.Verdict = "skip"
		res.Notes = append(res.Notes, "flag error in reference: "+ref.FlagErr)
		return res
	}
	for _, p := range ref.Passes {
		if p.Panic != "" || p.Err != "" {
			res.Verdict = "skip"
			res.Notes = append(res.Notes, fmt.Sprintf("sequential reference fails on %s (not judged here): %s%s", p.Pkg, p.Panic, p.Err))
			return res
		}
	}
	v := &rc.Variants[0]
	if len(v.CPFrac) > 0 {
		// calibrate on a serial schedule of the parallel form
		cal := w.execAnalyzer(&ex, pkgs, &simapi.Variant{MapPolicy: simrt.MapCanonical,
			Sched: &simrt.SchedConfig{Strategy: simrt.StratPrio, PrioRule: simrt.PrioWorkersFirst, StepBudget: defaultBudget}})
		resolve(v, cal.Sched.Steps)
	}
	if v.Sched != nil && v.Sched.StepBudget == 0 {
		v.Sched.StepBudget = defaultBudget
	}
	out := w.execAnalyzer(&ex, pkgs, v)
	for i := range out.Passes {
		p, q := &out.Passes[i], &ref.Passes[i]
		if p.Panic != "" {
			res.Violations = append(res.Violations, simapi.Violation{Class: "pass-panic", Identity: "pass-panic:parallel",
				Detail: fmt.Sprintf("pass over %s panicked under a parallel schedule but not sequentially: %s", p.Pkg, p.Panic)})
			continue
		}
		if p.Err != q.Err {
			res.Violations = append(res.Violations, simapi.Violation{Class: "pass-error-differs", Identity: "pass-error-differs",
				Detail: fmt.Sprintf("pass over %s: error %q under the parallel schedule, %q sequentially", p.Pkg, p.Err, q.Err)})
			continue
		}
		oa, ob := multisetDiff(passKeys(p), passKeys(q))
		if len(oa)+len(ob) > 0 {
			c := "?"
			for _, s := range append(oa, ob...) {
				parts := strings.SplitN(s, ": ", 3)
				if len(parts) >= 2 {
					c = parts[1]
					break
				}
			}
			res.Violations = append(res.Violations, simapi.Violation{Class: "diag-mismatch", Identity: "diag-mismatch:" + c,
				Detail: fmt.Sprintf("parallel pass over %s differs from the sequential driver: only parallel [%s]; only sequential [%s]", p.Pkg, joinShort(oa, 3), joinShort(ob, 3))})
		}
		res.Stats["diagnostics"] += int64(len(p.Diags))
	}
	if out.Races > 0 {
		classes := uniqSorted(raceClasses(out.RaceTxt))
		for _, c := range classes {
			res.Violations = append(res.Violations, simapi.Violation{Class: "race", Identity: "race:" + c,
				Detail: fmt.Sprintf("data race between parallel analyzer passes: %s\n%s", c, short(out.RaceTxt, 3000))})
		}
		if len(classes) == 0 {
			res.Violations = append(res.Violations, simapi.Violation{Class: "race", Identity: "race:?", Detail: short(out.RaceTxt, 3000)})
		}
	}
	res.NonTrivial = out.Sched.Interleaved >= 1
	res.Stats["steps"] = out.Sched.Steps
	res.Stats["handovers"] = out.Sched.Handovers
	res.Stats["interleaved_switches"] = out.Sched.Interleaved
	res.Stats["analyzer_passes"] = int64(len(pkgs))
	res.Stats["tasks"] = int64(out.Sched.Tasks)
	res.Stats["races"] = int64(out.Races)
	res.Probes["analyzer_parallel_run"] = 1
	res.Probes["strategy_"+schedName(v.Sched)] = 1
	res.DecisionID = hashStrings(string(rc.Extra), fmt.Sprint(rc.Visits), fmt.Sprint(out.Sched.Hash))
	var all []string
	for i := range out.Passes {
		all = append(all, passKeys(&out.Passes[i])...)
	}
	res.Digest = hashStrings(strings.Join(all, "\n"), fmt.Sprint(out.Sched.Hash, out.Sched.Steps))
	return res
}

// ---------------------------------------------------------------------------
// C19 (a): the analyzer's error latch under pass sequences and parallel passes.
// ---------------------------------------------------------------------------

type cfgFault struct {
	Name  string            // fault kind
	Flags map[string]string // analyzer flags that carry it
	Names []string          // the message must contain one of these (the problem is named)
	Stage string            // "flag" when the flag package itself must reject the value
}

func (w *Worker) configFaults(r *simrt.Rand) cfgFault {
	rulesFile := w.job.RepoDir + "/checkers/testdata/_integration/ruleguard/rules.go"
	switch r.Intn(7) {
	case 6:
		// a valid rule file first, then a pattern that matches nothing: loading
		// has already made progress when the error arrives
		p := "/gcsim-nonexistent/rules-*.go"
		return cfgFault{Name: "rules-valid-then-pattern-without-match", Flags: map[string]string{"enable": "ruleguard", "disable": "", "@ruleguard.rules": rulesGlob() + "," + p}, Names: []string{p}}
	case 0:
		vs := []string{"abc", "1", "1.x", "go1", "1.2.3", "v1.20", "1.", ".5"}
		v := vs[r.Intn(len(vs))]
		return cfgFault{Name: "malformed-go-version", Flags: map[string]string{"go": v}, Names: []string{v, strings.TrimPrefix(v, "go"), "version"}}
	case 1:
		vs := []string{"bogus", "DSL", "dsl,nope", "import;dsl"}
		v := vs[r.Intn(len(vs))]
		bad := v
		if i := strings.LastIndex(v, ","); i >= 0 {
			bad = v[i+1:]
		}
		return cfgFault{Name: "unknown-failOn", Flags: map[string]string{"enable": "ruleguard", "disable": "", "@ruleguard.rules": rulesFile, "@ruleguard.failOn": v}, Names: []string{bad}}
	case 2:
		p := "/gcsim-nonexistent/rules-*.go"
		return cfgFault{Name: "rules-pattern-without-match", Flags: map[string]string{"enable": "ruleguard", "disable": "", "@ruleguard.rules": p}, Names: []string{p}}
	case 3:
		vs := []string{"nosuchchecker", "#nosuchtag", "nosuch1,nosuch2", "", " , "} // also an explicitly empty list
		v := vs[r.Intn(len(vs))]
		return cfgFault{Name: "empty-selection", Flags: map[string]string{"enable": v, "disable": ""}, Names: []string{"empty", "no checkers", "selected", v}}
	case 4:
		return cfgFault{Name: "empty-selection-by-disable", Flags: map[string]string{"enable": "hugeParam", "disable": "hugeParam"}, Names: []string{"empty", "no checkers", "selected"}}
	default:
		vs := []string{"abc", "1.5", "", "0x"}
		v := vs[r.Intn(len(vs))]
		return cfgFault{Name: "unparsable-parameter", Flags: map[string]string{"@hugeParam.sizeThreshold": v}, Names: []string{"sizeThreshold", v}, Stage: "flag"}
	}
}

func (w *Worker) genC19(rc *simapi.RunConfig) {
	r := simrt.NewRand(rc.RunSeed, "fault")
	rc.Kind = "analyzer-config"
	k := 1 + r.Intn(6)
	pkgs := w.pickPkgs(r, rc.Index, k)
	for _, p := range pkgs {
		rc.Visits = append(rc.Visits, simapi.Visit{Pkg: p, Files: w.index.AllFiles(p)})
	}
	ft := w.configFaults(r)
	ex := anaExtra{Flags: ft.Flags, Fault: ft.Name, Parallel: r.Intn(2) == 0 && k > 1, Order: r.Perm(k)}
	rc.Extra, _ = json.Marshal(struct {
		anaExtra
		Names []string `json:"names"`
		Stage string   `json:"stage,omitempty"`
	}{ex, ft.Names, ft.Stage})
	sr := simrt.NewRand(rc.RunSeed, "sched")
	v := genVariant(sr, false)
	v.MapPolicy, v.MapSeed = simrt.MapCanonical, 0
	rc.Variants = []simapi.Variant{v}
}

func containsAny(s string, subs []string) bool {
	for _, x := range subs {
		if x != "" && strings.Contains(s, x) {
			return true
		}
	}
	return false
}

func (w *Worker) runC19(rc *simapi.RunConfig) *simapi.RunResult {
	res := &simapi.RunResult{Stats: map[string]int64{}, Probes: map[string]int64{}, Faults: map[string]int64{}}
	var ex struct {
		anaExtra
		Names []string `json:"names"`
		Stage string   `json:"stage,omitempty"`
	}
	json.Unmarshal(rc.Extra, &ex)
	var pkgs []string
	for _, v := range rc.Visits {
		pkgs = append(pkgs, v.Pkg)
	}
	v := &rc.Variants[0]
	if v.Sched != nil {
		if len(v.CPFrac) > 0 {
			resolve(v, 20000) // init-only runs are short; fractions of a nominal length
		}
		if v.Sched.StepBudget == 0 {
			v.Sched.StepBudget = defaultBudget
		}
	}
	out := w.execAnalyzer(&ex.anaExtra, pkgs, v)
	res.Faults["config:"+ex.Fault]++
	mode := "sequential"
	if ex.Parallel {
		mode = "parallel"
	}
	id := func(class string) string { return class + ":" + ex.Fault }
	add := func(class, detail string) {
		res.Violations = append(res.Violations, simapi.Violation{Class: class, Identity: id(class),
			Detail: fmt.Sprintf("%s (fault %s, flags %v, %d passes, %s, order %v)", detail, ex.Fault, ex.Flags, len(pkgs), mode, ex.Order)})
	}
	if out.FlagErr != "" {
		// the driver's flag package rejected the value: a clean failure as long as it names the problem
		if !containsAny(out.FlagErr, ex.Names) {
			add("error-does-not-name-problem", fmt.Sprintf("flag error %q names none of %v", out.FlagErr, ex.Names))
		}
		res.Stats["rejected_by_flag_package"]++
	} else if ex.Stage == "flag" {
		add("invalid-value-accepted", "an unparsable parameter value was accepted by the flag set")
	} else {
		anyErr, firstErr := false, false
		first := ex.Order[0]
		if len(ex.Order) != len(pkgs) {
			first = 0
		}
		entered2 := 0
		for i := range out.Passes {
			p := &out.Passes[i]
			if p.Panic != "" {
				add("pass-panic", fmt.Sprintf("pass over %s panicked: %s", p.Pkg, p.Panic))
				break
			}
			if len(p.Diags) > 0 {
				add("analysed-despite-config-error", fmt.Sprintf("pass over %s reported %d diagnostics although the configuration is invalid, e.g. %s", p.Pkg, len(p.Diags), p.Diags[0].Key()))
				break
			}
			if p.Err != "" {
				anyErr = true
				if i == first {
					firstErr = true
				}
				if !containsAny(p.Err, ex.Names) {
					add("error-does-not-name-problem", fmt.Sprintf("pass over %s: error %q names none of %v", p.Pkg, p.Err, ex.Names))
					break
				}
			} else {
				entered2++
			}
		}
		if len(res.Violations) == 0 {
			if !anyErr {
				add("config-error-not-reported", "no pass returned an error: a driver would exit with status 0 and analyse nothing")
			} else if !ex.Parallel && !firstErr {
				add("config-error-not-reported-by-first-pass", "the first pass of a sequential driver returned no error")
			}
		}
		if entered2 > 0 && anyErr {
			res.Probes["later_pass_entered_after_init_error"] += int64(entered2)
		}
	}
	res.NonTrivial = true
	res.Stats["analyzer_passes"] = int64(len(pkgs))
	res.Stats["steps"] = out.Sched.Steps
	res.Stats["handovers"] = out.Sched.Handovers
	res.Stats["interleaved_switches"] = out.Sched.Interleaved
	res.Probes["mode_"+mode]++
	res.Probes[fmt.Sprintf("passes_%d", len(pkgs))]++
	res.DecisionID = hashStrings(string(rc.Extra), fmt.Sprint(rc.Visits), fmt.Sprint(out.Sched.Hash))
	var sig []string
	for _, p := range out.Passes {
		sig = append(sig, p.Pkg+"|"+p.Err+"|"+p.Panic+"|"+fmt.Sprint(len(p.Diags)))
	}
	res.Digest = hashStrings(strings.Join(sig, "\n"), out.FlagErr, fmt.Sprint(out.Sched.Hash, out.Sched.Steps))
	return res
}

// ---------------------------------------------------------------------------
// C02 / C03 legs through the analyzer.
// ---------------------------------------------------------------------------

// orderedPassText renders what a driver would print for a pass, in report order.
func orderedPassText(p *PassOutcome) []string {
	out := make([]string, len(p.Diags))
	for i, d := range p.Diags {
		out[i] = d.Key()
	}
	return out
}

func (w *Worker) anaSelection(r *simrt.Rand, pkgs []string, n int) string {
	hw := w.handWritten()
	sel := map[string]bool{}
	for _, p := range pkgs {
		if contains(hw, p) {
			sel[p] = true
		}
	}
	for i := 0; i < n; i++ {
		sel[hw[r.Intn(len(hw))]] = true
	}
	delete(sel, "ruleguard")
	var names []string
	for s := range sel {
		names = append(names, s)
	}
	sort.Strings(names)
	return strings.Join(names, ",")
}

// withUserRules adds the dynamic-rules checker and its rule files to analyzer flags.
func withUserRules(flags map[string]string) {
	flags["enable"] += ",ruleguard"
	flags["@ruleguard.rules"] = rulesGlob()
}

// genC02Analyzer: the same passes under different map orders / schedules must
// report byte-identical diagnostics in the same order.
func (w *Worker) genC02Analyzer(rc *simapi.RunConfig) {
	r := simrt.NewRand(rc.RunSeed, "work")
	rc.Kind = "analyzer-determinism"
	k := 1 + r.Intn(3)
	pkgs := w.pickPkgs(r, rc.Index/6, k)
	for _, p := range pkgs {
		rc.Visits = append(rc.Visits, simapi.Visit{Pkg: p, Files: w.index.AllFiles(p)})
	}
	ex := anaExtra{Flags: map[string]string{"enable": w.anaSelection(r, pkgs, []int{5, 20, 70}[r.Intn(3)]), "disable": ""}, Parallel: true, Order: r.Perm(k)}
	if r.Intn(2) == 0 {
		withUserRules(ex.Flags)
	}
	rc.Extra, _ = json.Marshal(ex)
	sr := simrt.NewRand(rc.RunSeed, "sched")
	rc.Variants = []simapi.Variant{serialVariant(),
		{MapPolicy: simrt.MapReversed, Sched: &simrt.SchedConfig{Strategy: simrt.StratPrio, PrioRule: simrt.PrioReverse}}}
	for i := 0; i < 2; i++ {
		v := genVariant(sr, false)
		if v.MapPolicy == simrt.MapCanonical {
			v.MapPolicy, v.MapSeed = simrt.MapShuffle, sr.Uint64()
		}
		rc.Variants = append(rc.Variants, v)
	}
}

func (w *Worker) runC02Analyzer(rc *simapi.RunConfig) *simapi.RunResult {
	res := &simapi.RunResult{Stats: map[string]int64{}, Probes: map[string]int64{}}
	var ex anaExtra
	json.Unmarshal(rc.Extra, &ex)
	var pkgs []string
	for _, v := range rc.Visits {
		pkgs = append(pkgs, v.Pkg)
	}
	var base []string
	var digest, decision []string
	decision = append(decision, string(rc.Extra), fmt.Sprint(rc.Visits))
	var baseSteps int64
	for vi := range rc.Variants {
		v := &rc.Variants[vi]
		if vi > 0 {
			resolve(v, baseSteps)
		}
		if v.Sched != nil && v.Sched.StepBudget == 0 {
			v.Sched.StepBudget = defaultBudget
		}
		out := w.execAnalyzer(&ex, pkgs, v)
		if out.FlagErr != "" {
			res.Verdict = "skip"
			res.Notes = append(res.Notes, out.FlagErr)
			return res
		}
		var text []string
		for i := range out.Passes {
			p := &out.Passes[i]
			text = append(text, fmt.Sprintf("== pass %s err=%q panic=%q", p.Pkg, p.Err, p.Panic))
			text = append(text, orderedPassText(p)...)
		}
		ms := simrt.TakeMapStats()
		digest = append(digest, strings.Join(text, "\n"), fmt.Sprint(out.Sched.Hash, ms.Hash))
		decision = append(decision, fmt.Sprint(out.Sched.Hash, ms.Hash))
		res.Stats["executions"]++
		res.Stats["steps"] += out.Sched.Steps
		res.Stats["handovers"] += out.Sched.Handovers
		res.Stats["interleaved_switches"] += out.Sched.Interleaved
		res.Stats["map_iterations"] += ms.Iterations
		res.Stats["map_multi"] += ms.Multi
		res.Stats["map_permuted"] += ms.Permuted
		res.Stats["map_uncontrolled"] += ms.Uncontrolled
		res.Stats["diagnostics"] += int64(len(text) - len(out.Passes))
		if ms.Permuted > 0 || out.Sched.Interleaved > 0 {
			res.NonTrivial = true
		}
		if vi == 0 {
			base, baseSteps = text, out.Sched.Steps
			continue
		}
		if strings.Join(text, "\n") != strings.Join(base, "\n") {
			k := 0
			for k < len(text) && k < len(base) && text[k] == base[k] {
				k++
			}
			a, b := "<end>", "<end>"
			if k < len(base) {
				a = base[k]
			}
			if k < len(text) {
				b = text[k]
			}
			c := "?"
			for _, s := range []string{a, b} {
				parts := strings.SplitN(s, ": ", 3)
				if len(parts) >= 2 {
					c = parts[1]
					break
				}
			}
			oa, ob := multisetDiff(sortedCopy(text), sortedCopy(base))
			class := "output-differs"
			if len(oa)+len(ob) == 0 {
				class = "order-differs"
			}
			res.Violations = append(res.Violations, simapi.Violation{Class: class, Identity: class + ":analyzer:" + c,
				Detail: fmt.Sprintf("analyzer, variant %d (map policy %d, strategy %s): differs from the canonical serial execution at line %d: reference %q, got %q", vi, v.MapPolicy, schedName(v.Sched), k, short(a, 300), short(b, 300))})
			break
		}
	}
	res.Probes["analyzer_leg"] = 1
	res.Digest = hashStrings(digest...)
	res.DecisionID = hashStrings(decision...)
	return res
}

// genC03Analyzer: one driver process (configuration cached after the first
// pass) analyses a seeded history of packages sequentially; every pass must
// report what fresh checkers report for that package.
func (w *Worker) genC03Analyzer(rc *simapi.RunConfig) {
	r := simrt.NewRand(rc.RunSeed, "work")
	rc.Kind = "analyzer-history"
	maxLen := 8
	if rc.Tier == "thorough" {
		maxLen = 20
	}
	rc.Visits = w.genHistory(r, rc.Index/5, maxLen)
	for i := range rc.Visits { // a pass always sees the whole package, in file-name order, as parsed
		rc.Visits[i].Files = w.index.AllFiles(rc.Visits[i].Pkg)
		rc.Visits[i].DeclSeed = 0
	}
	ex := anaExtra{Flags: map[string]string{"enable": w.anaSelection(r, visitPkgs(rc.Visits), []int{3, 12, 40}[r.Intn(3)]), "disable": ""}}
	if r.Intn(3) == 0 {
		ex.Flags["@hugeParam.sizeThreshold"] = fmt.Sprint([]int{1, 40, 256}[r.Intn(3)])
	}
	if r.Intn(2) == 0 {
		withUserRules(ex.Flags)
	}
	rc.Extra, _ = json.Marshal(ex)
	rc.Variants = []simapi.Variant{{MapPolicy: simrt.MapCanonical}}
}

func (w *Worker) runC03Analyzer(rc *simapi.RunConfig) *simapi.RunResult {
	res := &simapi.RunResult{Stats: map[string]int64{}, Probes: map[string]int64{}}
	var ex anaExtra
	json.Unmarshal(rc.Extra, &ex)
	var pkgs []string
	for _, v := range rc.Visits {
		pkgs = append(pkgs, v.Pkg)
	}
	wl := &Workload{Checkers: strings.Split(ex.Flags["enable"], ","), Params: map[string]map[string]any{}}
	if v, ok := ex.Flags["@hugeParam.sizeThreshold"]; ok {
		n := 0
		fmt.Sscan(v, &n)
		wl.Params["hugeParam"] = map[string]any{"sizeThreshold": n}
	}
	if v, ok := ex.Flags["@ruleguard.rules"]; ok {
		wl.Params["ruleguard"] = map[string]any{"rules": v}
	}
	ref, panics := w.refForVisits(wl, rc.Visits, false)
	if len(panics) > 0 {
		res.Verdict = "skip"
		res.Notes = append(res.Notes, "reference panics (not judged): "+joinShort(panics, 3))
		return res
	}
	out := w.execAnalyzer(&ex, pkgs, &rc.Variants[0])
	if out.FlagErr != "" {
		res.Verdict = "skip"
		res.Notes = append(res.Notes, out.FlagErr)
		return res
	}
	after := 0
	for i := range out.Passes {
		p := &out.Passes[i]
		if p.Panic != "" || p.Err != "" {
			res.Violations = append(res.Violations, simapi.Violation{Class: "pass-failed-in-history", Identity: "pass-failed-in-history",
				Detail: fmt.Sprintf("pass %d over %s of a history of %d: err=%q panic=%q", i, p.Pkg, len(pkgs), p.Err, p.Panic)})
			break
		}
		if i >= 1 {
			after += len(p.Diags)
		}
		oa, ob := multisetDiff(passKeys(p), sortedKeys(ref[i], false))
		if len(oa)+len(ob) > 0 {
			c := "?"
			for _, s := range append(oa, ob...) {
				parts := strings.SplitN(s, ": ", 3)
				if len(parts) >= 2 {
					c = parts[1]
					break
				}
			}
			res.Violations = append(res.Violations, simapi.Violation{Class: "diag-mismatch", Identity: "diag-mismatch:" + c,
				Detail: fmt.Sprintf("analyzer pass %d over %s (history of %d packages, cached configuration): reported but not in reference [%s]; in reference but not reported [%s]",
					i, p.Pkg, len(pkgs), joinShort(oa, 4), joinShort(ob, 4))})
			break
		}
		res.Stats["diagnostics"] += int64(len(p.Diags))
	}
	res.NonTrivial = len(pkgs) >= 2 && after >= 1
	res.Stats["visits"] = int64(len(pkgs))
	res.Probes["analyzer_leg"] = 1
	res.DecisionID = hashStrings(string(rc.Extra), fmt.Sprint(rc.Visits))
	var all []string
	for i := range out.Passes {
		all = append(all, passKeys(&out.Passes[i])...)
	}
	res.Digest = hashStrings(strings.Join(all, "\n"))
	return res
}
