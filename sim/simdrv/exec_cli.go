package simdrv

import (
	"fmt"
	"os"
	"runtime"
	"sort"
	"strconv"
	"strings"
	"time"

	"golang.org/x/tools/go/packages"

	"verif.local/gcsim/simapi"
	"verif.local/gcsim/simrt"
)

// Workload is the part of a run that is held fixed while nondeterminism varies.
type Workload struct {
	Checkers    []string
	EnableAll   bool
	Params      map[string]map[string]any
	Concurrency int
	GoVersion   string
	// SkipGenerated: -checkGenerated=false (the shipped default), files with a
	// "Code generated" header are not analysed
	SkipGenerated bool
}

// Args renders the workload as go-critic check flags.
func (wl *Workload) Args() []string {
	args := []string{"-shorterErrLocation=false", "-checkGenerated=" + fmt.Sprint(!wl.SkipGenerated)}
	if wl.EnableAll {
		args = append(args, "-enableAll")
	} else {
		args = append(args, "-enable="+strings.Join(wl.Checkers, ","))
	}
	if wl.Concurrency > 0 {
		args = append(args, fmt.Sprintf("-concurrency=%d", wl.Concurrency))
	}
	if wl.GoVersion != "" {
		args = append(args, "-go="+wl.GoVersion)
	}
	var cs []string
	for c := range wl.Params {
		cs = append(cs, c)
	}
	sort.Strings(cs)
	for _, c := range cs {
		var ps []string
		for p := range wl.Params[c] {
			ps = append(ps, p)
		}
		sort.Strings(ps)
		for _, p := range ps {
			args = append(args, fmt.Sprintf("-@%s.%s=%v", c, p, wl.Params[c][p]))
		}
	}
	return args
}

// parseWorkload recovers the workload from flags (replay files carry flags only).
func (w *Worker) parseWorkload(args []string) *Workload {
	wl := &Workload{Params: map[string]map[string]any{}}
	for _, a := range args {
		a = strings.TrimLeft(a, "-")
		k, v, _ := strings.Cut(a, "=")
		switch {
		case k == "enableAll":
			wl.EnableAll = true
		case k == "enable":
			if v != "" {
				wl.Checkers = strings.Split(v, ",")
			}
		case k == "checkGenerated":
			wl.SkipGenerated = v == "false"
		case k == "concurrency":
			wl.Concurrency, _ = strconv.Atoi(v)
		case k == "go":
			wl.GoVersion = v
		case strings.HasPrefix(k, "@"):
			c, p, _ := strings.Cut(k[1:], ".")
			info := w.infoBy[c]
			if info == nil || info.Params[p] == nil {
				continue
			}
			if wl.Params[c] == nil {
				wl.Params[c] = map[string]any{}
			}
			switch w.defaults[c][p].(type) {
			case int:
				n, _ := strconv.Atoi(v)
				wl.Params[c][p] = n
			case bool:
				wl.Params[c][p] = v == "true"
			default:
				wl.Params[c][p] = v
			}
		}
	}
	if wl.EnableAll {
		wl.Checkers = nil
		for _, info := range w.infos {
			wl.Checkers = append(wl.Checkers, info.Name)
		}
	}
	sort.Strings(wl.Checkers)
	return wl
}

// genWorkload draws a workload for the given packages.
func (w *Worker) genWorkload(r *simrt.Rand, pkgs []string, allowAll bool) *Workload {
	wl := &Workload{Params: map[string]map[string]any{}}
	set := map[string]bool{}
	for _, p := range pkgs {
		if w.infoBy[p] != nil {
			set[p] = true
		}
	}
	mode := r.Intn(10)
	// a package without a checker of its own (the hand-written interplay
	// packages) is there to put many checkers on the same nodes
	if len(set) == 0 && allowAll && r.Intn(2) == 0 {
		mode = 0
	}
	switch {
	case mode == 0 && allowAll:
		wl.EnableAll = true
	default:
		sizes := []int{0, 1, 3, 8, 20, 40}
		k := sizes[r.Intn(len(sizes))]
		for i := 0; i < k; i++ {
			set[w.infos[r.Intn(len(w.infos))].Name] = true
		}
		if len(set) == 0 {
			set[w.infos[r.Intn(len(w.infos))].Name] = true
		}
	}
	if wl.EnableAll {
		for _, info := range w.infos {
			wl.Checkers = append(wl.Checkers, info.Name)
		}
	} else {
		for c := range set {
			wl.Checkers = append(wl.Checkers, c)
		}
	}
	sort.Strings(wl.Checkers)
	// parameters
	for _, c := range wl.Checkers {
		info := w.infoBy[c]
		if c == "ruleguard" || len(info.Params) == 0 {
			continue
		}
		var ps []string
		for p := range info.Params {
			ps = append(ps, p)
		}
		sort.Strings(ps)
		for _, p := range ps {
			if r.Intn(3) != 0 {
				continue
			}
			switch d := w.defaults[c][p].(type) {
			case int:
				cands := []int{1, d - 1, d + 1, d * 2, d / 2, 1024}
				v := cands[r.Intn(len(cands))]
				if v < 1 {
					v = 1
				}
				if wl.Params[c] == nil {
					wl.Params[c] = map[string]any{}
				}
				wl.Params[c][p] = v
			case bool:
				if wl.Params[c] == nil {
					wl.Params[c] = map[string]any{}
				}
				wl.Params[c][p] = !d
			}
		}
	}
	// the dynamic-rules checker with user rule files (several files whose rules
	// overlap on the same nodes and depend on package, scope, file, type and size)
	if r.Intn(3) == 0 {
		if !wl.EnableAll && !set["ruleguard"] {
			wl.Checkers = append(wl.Checkers, "ruleguard")
			sort.Strings(wl.Checkers)
		}
		wl.Params["ruleguard"] = map[string]any{"rules": rulesGlob()}
	}
	wl.SkipGenerated = r.Intn(3) == 0
	n := len(wl.Checkers)
	concs := []int{1, 2, 3, n/2 + 1, n, 2 * n, 16}
	wl.Concurrency = concs[r.Intn(len(concs))]
	if wl.Concurrency < 1 {
		wl.Concurrency = 1
	}
	return wl
}

// CLIOutcome is what one execution of the command-line front-end produced.
type CLIOutcome struct {
	InitErr     string
	Records     []logRecord
	Checkers    []string
	FoundIssues bool
	Sched       simrt.SchedStats
	SchedOn     bool
	Map         simrt.MapStats
	Races       int
	RaceText    string
	Attributed  bool // records carry the index of the visit that printed them
	Decisions   []simrt.Decision
}

// execCLI runs the real front-end (flag parsing, checker construction,
// checkPackage/checkFile with its goroutines, semaphore and barrier) over a
// history of visits under one (map policy, schedule) variant.
func (w *Worker) execCLI(args []string, visits []simapi.Visit, v *simapi.Variant, keepDecisions bool) *CLIOutcome {
	out := &CLIOutcome{}
	w.restoreParams()
	defer w.restoreParams()
	w.sink.records = nil
	w.sink.visit = -1
	simrt.SetMapPolicy(v.MapPolicy, v.MapSeed)
	corpus := w.corpus
	if v.Twin {
		corpus = w.refCorpus()
	}
	var pkgs []*packages.Package
	for _, vis := range visits {
		cp := corpus.Pkgs[vis.Pkg]
		if cp == nil {
			panic("visit of unknown package " + vis.Pkg)
		}
		pkgs = append(pkgs, cp.ViewPermuted(vis.Files, vis.DeclSeed))
	}
	race0 := raceErrors()
	if v.Sched != nil {
		out.SchedOn = true
	}
	goroutines0 := runtime.NumGoroutine()
	fe := w.runFrontEnd(args, corpus, pkgs, v.Sched, w.afterInit)
	if simrt.Active() {
		simrt.Drain()
		out.Sched = simrt.Stop()
		if keepDecisions {
			out.Decisions = simrt.Decisions()
		}
		// every task has ended; let their goroutines unwind before anything else runs
		for deadline := time.Now().Add(5 * time.Second); runtime.NumGoroutine() > goroutines0 && time.Now().Before(deadline); {
			runtime.Gosched()
			time.Sleep(50 * time.Microsecond)
		}
	}
	out.Races = raceErrors() - race0
	if out.Races > 0 {
		out.RaceText = w.readNewRaceLog()
	}
	out.Records = append([]logRecord(nil), w.sink.records...)
	out.Map = simrt.TakeMapStats()
	out.Checkers = w.parseWorkload(args).Checkers
	out.Attributed = fe.Attributed
	switch {
	case fe.LoaderTypeErr != "":
		out.InitErr = "gcsim: the front-end calls a package loader of a type the driver does not serve: " + fe.LoaderTypeErr
	case fe.Fatal != "":
		out.InitErr = fe.Fatal
		// the fatal message was also printed; it is not a diagnostic record
		if n := len(out.Records); n > 0 && strings.TrimRight(out.Records[n-1].Text, "\n") == fe.Fatal {
			out.Records = out.Records[:n-1]
		}
	case fe.Err != "":
		out.InitErr = fe.Err
	default:
		out.FoundIssues = fe.Exit != 0
	}
	return out
}

// refForVisits computes the reference diagnostics per visit (canonical map
// order, scheduler off). Must be called while no simulation is active.
func (w *Worker) refForVisits(wl *Workload, visits []simapi.Visit, cliLevel bool) (perVisit [][]Diag, panics []string) {
	simrt.SetMapPolicy(simrt.MapCanonical, 0)
	for _, vis := range visits {
		var ds []Diag
		for _, fi := range vis.Files {
			for _, c := range wl.Checkers {
				var e *RefEntry
				if cliLevel {
					e = w.refDiagsCLI(wl, c, vis.Pkg, fi, vis.DeclSeed)
				} else {
					e = w.refDiagsPerm(c, wl.Params[c], wl.GoVersion, vis.Pkg, fi, vis.DeclSeed)
				}
				if e.Panic != "" {
					panics = append(panics, fmt.Sprintf("%s on %s/%d: %s", c, vis.Pkg, fi, e.Panic))
				}
				ds = append(ds, e.Diags...)
			}
		}
		perVisit = append(perVisit, ds)
	}
	return
}

// diagsOfVisit parses the records the CLI printed during visit i.
func diagsOfVisit(out *CLIOutcome, i int, pkg string) (ds []Diag, other []string) {
	for _, r := range out.Records {
		if r.Visit != i {
			continue
		}
		if d, ok := parseCLIRecord(pkg, r.Text); ok {
			ds = append(ds, d)
		} else {
			other = append(other, r.Text)
		}
	}
	return
}

// rulesGlob is the pattern of the hand-written user rule files.
func rulesGlob() string {
	if d := os.Getenv("GCSIM_RULES"); d != "" {
		return d
	}
	if v := os.Getenv("GCSIM_VERIF"); v != "" {
		return v + "/sim/rules/probe_*.go"
	}
	return "/verif/sim/rules/probe_*.go"
}
