package simdrv

import (
	"sort"

	"verif.local/gcsim/simapi"
	"verif.local/gcsim/simrt"
)

// genVariant draws a (map policy, schedule) pair, swarm style.
func genVariant(r *simrt.Rand, serialOnly bool) simapi.Variant {
	v := simapi.Variant{}
	switch r.Intn(4) {
	case 0:
		v.MapPolicy = simrt.MapCanonical
	case 1:
		v.MapPolicy = simrt.MapReversed
	default:
		v.MapPolicy = simrt.MapShuffle
		v.MapSeed = r.Uint64()
	}
	sc := &simrt.SchedConfig{}
	choice := r.Intn(14)
	if serialOnly {
		choice = r.Intn(3)
	}
	switch choice {
	case 0:
		sc.Strategy, sc.PrioRule = simrt.StratPrio, simrt.PrioWorkersFirst
	case 1:
		sc.Strategy, sc.PrioRule = simrt.StratPrio, simrt.PrioMainFirst
	case 2:
		sc.Strategy, sc.PrioRule = simrt.StratPrio, simrt.PrioReverse
	case 3, 4, 5, 6, 7, 8:
		sc.Strategy = simrt.StratPrio
		sc.PrioRule = []int{simrt.PrioRandom, simrt.PrioRandomMainLo, simrt.PrioRandomMainHi, simrt.PrioRandomMainHi}[r.Intn(4)]
		sc.PrioSeed = r.Uint64()
		d := 1 + r.Intn(3) // number of change points
		if r.Intn(6) == 0 {
			d = 0
		}
		for i := 0; i < d; i++ {
			v.CPFrac = append(v.CPFrac, r.Float64())
		}
		sort.Float64s(v.CPFrac)
	default:
		sc.Strategy = simrt.StratRW
		sc.RWSeed = r.Uint64()
		gaps := []int64{20, 200, 2000}
		sc.RWMeanGap = gaps[r.Intn(len(gaps))]
	}
	v.Sched = sc
	return v
}

func serialVariant() simapi.Variant {
	return simapi.Variant{MapPolicy: simrt.MapCanonical, Sched: &simrt.SchedConfig{Strategy: simrt.StratPrio, PrioRule: simrt.PrioWorkersFirst}}
}

// resolve turns fractions into absolute change points once the serial step
// count of the workload is known, and sets the step budget (bounded liveness:
// the run must finish within 50x the serial step count).
func resolve(v *simapi.Variant, serialSteps int64) {
	if v.Sched == nil {
		return
	}
	if len(v.CPFrac) > 0 && len(v.Sched.ChangePoints) == 0 {
		for _, f := range v.CPFrac {
			v.Sched.ChangePoints = append(v.Sched.ChangePoints, 1+int64(f*float64(serialSteps)))
		}
		sort.Slice(v.Sched.ChangePoints, func(i, j int) bool { return v.Sched.ChangePoints[i] < v.Sched.ChangePoints[j] })
		v.CPFrac = nil
	}
	if v.Sched.StepBudget == 0 {
		v.Sched.StepBudget = 50*serialSteps + 100000
	}
}
