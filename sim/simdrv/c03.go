package simdrv

import (
	"encoding/json"
	"fmt"
	"os"
	"runtime"
	"sort"
	"strings"

	"verif.local/gcsim/simapi"
	"verif.local/gcsim/simrt"
)

func sortStrings(s []string) { sort.Strings(s) }

// C03: one long-lived checker set (the real CLI program) is driven through a
// seeded history of package visits; every visit must print exactly what fresh
// checkers print for that file.

func (w *Worker) genHistory(r *simrt.Rand, index, maxLen int) []simapi.Visit {
	names := w.index.Names
	n := 1 + r.Intn(maxLen)
	if r.Intn(3) == 0 {
		n = 2 + r.Intn(2) // most stale-state bugs need two or three visits
	}
	var vs []simapi.Visit
	pool := []string{names[index%len(names)]}
	for i := 0; i < 1+r.Intn(4); i++ {
		pool = append(pool, names[r.Intn(len(names))])
	}
	if r.Intn(2) == 0 { // one of the hand-written interplay packages
		var hw []string
		for _, n := range names {
			if strings.HasPrefix(n, "x_") || strings.HasPrefix(n, "o_") {
				hw = append(hw, n)
			}
		}
		if len(hw) > 0 {
			pool = append(pool, hw[r.Intn(len(hw))])
		}
	}
	if r.Intn(8) == 0 {
		// a package of a module with a different configuration (older go
		// directive) is analysed first: whatever the front-end derives from a
		// package's module must not stick to the packages after it
		var old []string
		for _, nm := range names {
			if strings.HasPrefix(nm, "o_") {
				old = append(old, nm)
			}
		}
		if len(old) > 0 {
			p := old[r.Intn(len(old))]
			vs = append(vs, simapi.Visit{Pkg: p, Files: w.index.AllFiles(p)})
			n++
		}
	}
	for len(vs) < n {
		p := pool[r.Intn(len(pool))]
		files := w.index.AllFiles(p)
		switch r.Intn(5) {
		case 0: // reversed file order (the harness always visits negative before positive)
			for i, j := 0, len(files)-1; i < j; i, j = i+1, j-1 {
				files[i], files[j] = files[j], files[i]
			}
		case 1: // a single file
			files = []int{files[r.Intn(len(files))]}
		case 2: // shuffled
			perm := r.Perm(len(files))
			nf := make([]int, len(files))
			for i, k := range perm {
				nf[i] = files[k]
			}
			files = nf
		}
		vis := simapi.Visit{Pkg: p, Files: files}
		if r.Intn(3) == 0 { // which declaration comes first / last in a file varies too
			vis.DeclSeed = r.Uint64() | 1
		}
		vs = append(vs, vis)
		if r.Intn(6) == 0 && len(vs) < n { // idempotence probe: the same visit again, immediately
			vs = append(vs, simapi.Visit{Pkg: p, Files: append([]int(nil), files...), DeclSeed: vis.DeclSeed})
		}
	}
	return vs
}

func visitPkgs(vs []simapi.Visit) []string {
	set := map[string]bool{}
	var out []string
	for _, v := range vs {
		if !set[v.Pkg] {
			set[v.Pkg] = true
			out = append(out, v.Pkg)
		}
	}
	return out
}

func (w *Worker) genC03(rc *simapi.RunConfig) {
	if rc.Index%5 == 4 {
		w.genC03Analyzer(rc)
		return
	}
	r := simrt.NewRand(rc.RunSeed, "work")
	rc.Kind = "cli-history"
	maxLen := 12
	if rc.Tier == "thorough" {
		maxLen = 40
	}
	rc.Visits = w.genHistory(r, rc.Index, maxLen)
	allowAll := rc.Index%7 == 0
	for _, p := range visitPkgs(rc.Visits) {
		if isInterplay(p) && rc.Index%2 == 0 {
			allowAll = true // the interplay packages are there for many checkers at once
		}
	}
	wl := w.genWorkload(r, visitPkgs(rc.Visits), allowAll)
	rc.Args = wl.Args()
	sr := simrt.NewRand(rc.RunSeed, "sched")
	v := genVariant(sr, rc.Index%2 == 0) // serial in half of the runs
	rc.Variants = []simapi.Variant{v}
}

// compareToRef checks every visit of an execution against the reference model.
func (w *Worker) compareToRef(out *CLIOutcome, wl *Workload, visits []simapi.Visit, ref [][]Diag) []simapi.Violation {
	var vios []simapi.Violation
	anyRef := false
	if !out.Attributed && len(visits) > 1 {
		// this tree has no function the driver could hook to tell the visits apart:
		// the whole history is compared as one multiset
		var all []Diag
		for _, ds := range ref {
			for _, d := range ds {
				d.Pkg = ""
				all = append(all, d)
			}
		}
		for k := range out.Records {
			out.Records[k].Visit = 0
		}
		visits = []simapi.Visit{{Pkg: "", Files: nil}}
		ref = [][]Diag{all}
	}
	for i, vis := range visits {
		got, printed := diagsOfVisit(out, i, vis.Pkg)
		// Lines that are not diagnostics (a summary, a progress or debug line a front-end may
		// print) are not judged: whether they belong to a file cannot be known. Only what a
		// crashing checker prints counts.
		var other []string
		for _, l := range printed {
			if strings.Contains(l, ": error: ") || strings.Contains(l, "panic") {
				other = append(other, l)
			}
		}
		if len(ref[i]) > 0 {
			anyRef = true
		}
		a, b := sortedKeys(got, true), sortedKeys(ref[i], true)
		onlyGot, onlyRef := multisetDiff(a, b)
		if len(onlyGot) == 0 && len(onlyRef) == 0 && len(other) == 0 {
			continue
		}
		checkers := map[string]bool{}
		for _, s := range append(append([]string(nil), onlyGot...), onlyRef...) {
			// key format pkg/file:l:c: checker: text
			parts := strings.SplitN(s, ": ", 3)
			if len(parts) >= 2 {
				checkers[parts[1]] = true
			}
		}
		var cs []string
		for c := range checkers {
			cs = append(cs, c)
		}
		sort.Strings(cs)
		class := "diag-mismatch"
		detail := fmt.Sprintf("visit %d (%s files %v of history of %d): printed but not in reference: [%s]; in reference but not printed: [%s]",
			i, vis.Pkg, vis.Files, len(visits), joinShort(onlyGot, 4), joinShort(onlyRef, 4))
		if len(other) > 0 {
			detail += fmt.Sprintf("; unparsable output: %q", short(strings.Join(other, ""), 300))
			if len(cs) == 0 {
				class = "unexpected-output"
			}
		}
		first := ""
		if len(cs) > 0 {
			first = cs[0] // one checker identifies the finding; the detail lists all
		}
		vios = append(vios, simapi.Violation{Class: class, Identity: class + ":" + first, Detail: detail})
		if len(vios) >= 3 {
			break
		}
	}
	if out.InitErr == "" && out.FoundIssues != anyRef && len(vios) == 0 {
		vios = append(vios, simapi.Violation{Class: "exit-decision", Identity: "exit-decision",
			Detail: fmt.Sprintf("foundIssues=%v but reference non-empty=%v", out.FoundIssues, anyRef)})
	}
	return vios
}

func (w *Worker) runC03(rc *simapi.RunConfig) *simapi.RunResult {
	res := &simapi.RunResult{Stats: map[string]int64{}, Probes: map[string]int64{}}
	wl := w.parseWorkload(rc.Args)
	ref, panics := w.refForVisits(wl, rc.Visits, true)
	if len(panics) > 0 {
		res.Verdict = "skip"
		res.Notes = append(res.Notes, "reference panics (C01 territory, not judged): "+joinShort(panics, 3))
		return res
	}
	v := &rc.Variants[0]
	// calibrate the serial step count for change points / budget
	w.calibrate(rc, v, wl)
	dump := os.Getenv("GCSIM_DUMP_DECISIONS")
	if dump != "" && simrt.DebugGID == nil {
		simrt.DebugGID = func() int64 {
			var buf [64]byte
			n := runtime.Stack(buf[:], false)
			var id int64
			fmt.Sscanf(string(buf[:n]), "goroutine %d ", &id)
			return id
		}
	}
	out := w.execCLI(rc.Args, rc.Visits, v, dump != "")
	if dump != "" {
		if b, err := json.Marshal(out.Decisions); err == nil {
			os.WriteFile(fmt.Sprintf("%s/dec-%d-%d.json", dump, os.Getpid(), rc.Index), b, 0o644)
		}
	}
	if out.InitErr != "" {
		res.Violations = append(res.Violations, simapi.Violation{Class: "init-error", Identity: "init-error", Detail: out.InitErr})
		return res
	}
	res.Violations = w.compareToRef(out, wl, rc.Visits, ref)
	after := 0
	for _, r := range out.Records {
		if r.Visit >= 1 {
			after++
		}
	}
	res.NonTrivial = len(rc.Visits) >= 2 && after >= 1
	res.Stats["visits"] = int64(len(rc.Visits))
	res.Stats["diagnostics"] = int64(len(out.Records))
	res.Stats["steps"] = out.Sched.Steps
	res.Stats["handovers"] = out.Sched.Handovers
	res.Stats["interleaved_switches"] = out.Sched.Interleaved
	res.Stats["checkers"] = int64(len(out.Checkers))
	res.DecisionID = hashStrings(strings.Join(rc.Args, " "), fmt.Sprint(rc.Visits), fmt.Sprint(out.Sched.Hash, out.Map.Hash))
	res.Digest = hashStrings(strings.Join(recordsText(out), ""), fmt.Sprint(out.Sched.Hash, out.Map.Hash, out.Sched.Steps))
	res.DigestParts = []string{"records=" + hashStrings(strings.Join(recordsText(out), "")), fmt.Sprintf("n_records=%d handover_hash=%x map_hash=%x steps=%d", len(out.Records), out.Sched.Hash, out.Map.Hash, out.Sched.Steps)}
	return res
}

// calibrate resolves change-point fractions and the step budget of a variant.
// The serial step count is measured only when fractions need it (or taken from
// the table the plain build wrote); otherwise a fixed generous budget applies.
func (w *Worker) calibrate(rc *simapi.RunConfig, v *simapi.Variant, wl *Workload) {
	if v.Sched == nil {
		return
	}
	if len(v.CPFrac) > 0 {
		steps, ok := w.refTable.Steps[fmt.Sprint(rc.Index)]
		if !ok || rc.Expect != nil {
			steps = w.estimateSteps(wl, rc.Visits)
		}
		resolve(v, steps)
	}
	if v.Sched.StepBudget == 0 {
		v.Sched.StepBudget = defaultBudget
	}
}

// defaultBudget bounds a run whose serial step count was not measured: the
// largest serial workload of the corpus takes about 4e5 steps.
const defaultBudget = 40_000_000

// estimateSteps gives the serial step count of a workload (cached per package
// and selection size; used only to place change points and to set the budget).
func (w *Worker) estimateSteps(wl *Workload, visits []simapi.Visit) int64 {
	out := w.execCLI(wl.Args(), visits, &simapi.Variant{MapPolicy: simrt.MapCanonical,
		Sched: &simrt.SchedConfig{Strategy: simrt.StratPrio, PrioRule: simrt.PrioWorkersFirst, StepBudget: 1 << 40}}, false)
	if out.Sched.Steps < 100 {
		return 100
	}
	return out.Sched.Steps
}
