package simdrv

import (
	"fmt"
	"sort"
	"strings"

	"verif.local/gcsim/simapi"
	"verif.local/gcsim/simrt"
)

// C02: the same workload executed under different map orders and schedules
// must print byte-identical output in the same order.

// isInterplay says whether a corpus package is one of the hand-written ones
// (no checker of its own; many checkers on the same nodes).
func isInterplay(name string) bool {
	return isHandWritten(name) || strings.HasPrefix(name, "r_")
}

// isHandWritten: the packages written for this corpus (x_: main module, o_: old-go module);
// r_ packages are real code of the standard library.
func isHandWritten(name string) bool {
	return strings.HasPrefix(name, "x_") || strings.HasPrefix(name, "o_")
}

// visitSchedule is the order in which run indices sweep the corpus: every
// package once, the hand-written interplay packages three times.
func (w *Worker) visitSchedule() []string {
	if w.schedule == nil {
		for _, n := range w.index.Names {
			w.schedule = append(w.schedule, n)
			if isHandWritten(n) && n != probePkg {
				w.schedule = append(w.schedule, n, n)
			}
		}
	}
	return w.schedule
}

func (w *Worker) pickPkgs(r *simrt.Rand, index, n int) []string {
	names := w.index.Names
	sched := w.visitSchedule()
	out := []string{sched[index%len(sched)]}
	for len(out) < n {
		if r.Intn(4) == 0 { // one of the hand-written interplay packages
			var hw []string
			for _, nm := range names {
				if strings.HasPrefix(nm, "x_") || strings.HasPrefix(nm, "o_") {
					hw = append(hw, nm)
				}
			}
			if len(hw) > 0 {
				out = append(out, hw[r.Intn(len(hw))])
				continue
			}
		}
		out = append(out, names[r.Intn(len(names))])
	}
	return out
}

func (w *Worker) genC02(rc *simapi.RunConfig) {
	if rc.Index%6 == 5 {
		w.genC02Analyzer(rc)
		return
	}
	r := simrt.NewRand(rc.RunSeed, "work")
	rc.Kind = "cli-determinism"
	np := 1 + r.Intn(2)
	pkgs := w.pickPkgs(r, rc.Index, np)
	for _, p := range pkgs {
		rc.Visits = append(rc.Visits, simapi.Visit{Pkg: p, Files: w.index.AllFiles(p)})
	}
	var wl *Workload
	if rc.Index%3 == 0 {
		wl = &Workload{EnableAll: true, Concurrency: 1 + r.Intn(16), Params: map[string]map[string]any{}}
	} else {
		wl = w.genWorkload(r, pkgs, true)
	}
	// the user rule files were written against the hand-written packages (rules that overlap
	// on the same nodes, exact duplicate reports, same text at several positions): a
	// workload that visits one of them always carries them
	for _, p := range pkgs {
		if isHandWritten(p) && p != probePkg {
			if !wl.EnableAll && !contains(wl.Checkers, "ruleguard") {
				wl.Checkers = append(wl.Checkers, "ruleguard")
				sort.Strings(wl.Checkers)
			}
			if wl.Params["ruleguard"] == nil {
				wl.Params["ruleguard"] = map[string]any{}
			}
			if _, ok := wl.Params["ruleguard"]["rules"]; !ok {
				wl.Params["ruleguard"]["rules"] = rulesGlob()
			}
			break
		}
	}
	rc.Args = wl.Args()
	// variant 0 is the reference execution E(w, canonical, serial)
	rc.Variants = []simapi.Variant{serialVariant()}
	sr := simrt.NewRand(rc.RunSeed, "sched")
	rc.Variants = append(rc.Variants,
		simapi.Variant{MapPolicy: simrt.MapReversed, Sched: &simrt.SchedConfig{Strategy: simrt.StratPrio, PrioRule: simrt.PrioReverse}})
	// the same workload over the twin corpus: files registered in another order
	tw := serialVariant()
	tw.Twin = true
	rc.Variants = append(rc.Variants, tw)
	nv := 2
	if rc.Tier == "thorough" {
		nv = 4
	}
	for i := 0; i < nv; i++ {
		v := genVariant(sr, false)
		if v.MapPolicy == simrt.MapCanonical {
			v.MapPolicy, v.MapSeed = simrt.MapShuffle, sr.Uint64()
		}
		rc.Variants = append(rc.Variants, v)
	}
}

func recordsText(out *CLIOutcome) []string {
	ss := make([]string, len(out.Records))
	for i, r := range out.Records {
		ss[i] = fmt.Sprintf("v%d %s", r.Visit, r.Text)
	}
	return ss
}

func (w *Worker) runC02(rc *simapi.RunConfig) *simapi.RunResult {
	res := &simapi.RunResult{Stats: map[string]int64{}, Probes: map[string]int64{}}
	var base *CLIOutcome
	var baseText []string
	digest := []string{}
	decision := []string{strings.Join(rc.Args, " "), fmt.Sprint(rc.Visits)}
	for vi := range rc.Variants {
		v := &rc.Variants[vi]
		if base != nil {
			resolve(v, base.Sched.Steps)
		} else if v.Sched != nil && v.Sched.StepBudget == 0 {
			v.Sched.StepBudget = 1 << 40
		}
		out := w.execCLI(rc.Args, rc.Visits, v, false)
		text := recordsText(out)
		if out.InitErr != "" {
			text = append(text, "init error: "+out.InitErr)
		}
		digest = append(digest, strings.Join(text, ""), fmt.Sprint(out.Sched.Hash, out.Map.Hash))
		decision = append(decision, fmt.Sprint(out.Sched.Hash, out.Map.Hash))
		res.Stats["executions"]++
		res.Stats["steps"] += out.Sched.Steps
		res.Stats["handovers"] += out.Sched.Handovers
		res.Stats["interleaved_switches"] += out.Sched.Interleaved
		res.Stats["map_iterations"] += out.Map.Iterations
		res.Stats["map_multi"] += out.Map.Multi
		res.Stats["map_permuted"] += out.Map.Permuted
		res.Stats["map_uncontrolled"] += out.Map.Uncontrolled
		res.Stats["diagnostics"] += int64(len(out.Records))
		if out.Map.Permuted > 0 || out.Sched.Interleaved > 0 {
			res.NonTrivial = true
		}
		if vi == 0 {
			base, baseText = out, text
			continue
		}
		if len(text) != len(baseText) || strings.Join(text, "") != strings.Join(baseText, "") {
			// find first difference
			k := 0
			for k < len(text) && k < len(baseText) && text[k] == baseText[k] {
				k++
			}
			a, b := "<end>", "<end>"
			if k < len(baseText) {
				a = baseText[k]
			}
			if k < len(text) {
				b = text[k]
			}
			checker := "?"
			for _, s := range []string{a, b} {
				if d, ok := parseCLIRecord("", strings.SplitN(s, " ", 2)[len(strings.SplitN(s, " ", 2))-1]); ok {
					checker = d.Checker
					break
				}
			}
			sameSet := len(text) == len(baseText)
			if sameSet {
				x, y := append([]string(nil), text...), append([]string(nil), baseText...)
				oa, ob := multisetDiff(sortedCopy(x), sortedCopy(y))
				sameSet = len(oa) == 0 && len(ob) == 0
			}
			class := "output-differs"
			if sameSet {
				class = "order-differs"
			}
			res.Violations = append(res.Violations, simapi.Violation{
				Class:    class,
				Identity: fmt.Sprintf("%s:%s", class, checker),
				Detail: fmt.Sprintf("variant %d (map policy %d, strategy %v%s) differs from E(w, canonical, serial) at record %d: reference %q, got %q",
					vi, v.MapPolicy, schedName(v.Sched), twinNote(v), k, short(a, 300), short(b, 300)),
			})
			break
		}
	}
	res.Digest = hashStrings(digest...)
	res.DecisionID = hashStrings(decision...)
	return res
}

func twinNote(v *simapi.Variant) string {
	if v.Twin {
		return ", over the twin corpus: same files registered in the file set in another order"
	}
	return ""
}

func sortedCopy(a []string) []string {
	b := append([]string(nil), a...)
	sortStrings(b)
	return b
}

func schedName(s *simrt.SchedConfig) string {
	if s == nil {
		return "off"
	}
	switch s.Strategy {
	case simrt.StratPrio:
		names := []string{"main-first", "workers-first", "reverse", "pct", "pct-main-low", "pct-main-high"}
		return fmt.Sprintf("%s(d=%d)", names[s.PrioRule], len(s.ChangePoints))
	case simrt.StratRW:
		return fmt.Sprintf("random-walk(gap=%d)", s.RWMeanGap)
	}
	return "explicit"
}
