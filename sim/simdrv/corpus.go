package simdrv

import (
	"fmt"

	"go/ast"
	"go/build"
	"go/parser"
	"go/token"
	"go/types"
	"os"
	"path/filepath"
	"runtime"
	"sort"
	"strings"
	"sync"
	"verif.local/gcsim/simrt"

	"golang.org/x/tools/go/packages"
)

// Corpus is a set of type-checked packages loaded into one file set.
type Corpus struct {
	Fset  *token.FileSet
	Sizes types.Sizes
	Names []string
	Pkgs  map[string]*CorpusPkg
}

// CorpusPkg is one package of the corpus.
type CorpusPkg struct {
	Name      string
	Dir       string
	Pkg       *packages.Package
	Files     []*ast.File
	FileNames []string // base names
	HasErrors bool
}

const loadMode = packages.NeedName |
	packages.NeedFiles |
	packages.NeedCompiledGoFiles |
	packages.NeedImports |
	packages.NeedTypes |
	packages.NeedSyntax |
	packages.NeedTypesInfo |
	packages.NeedTypesSizes |
	// more than the shipped loader asks for today: whatever an edited front-end
	// reads from a package (its module, embedded files) is there to be read
	packages.NeedModule |
	packages.NeedEmbedFiles |
	packages.NeedEmbedPatterns

// FsetOrder is the file-registration-order seam. go/packages parses the files
// of a package concurrently, so the order in which files enter the
// token.FileSet - and with it the relative order of token.Pos values of
// different files - changes from one process to the next. The corpus loader
// parses every file itself, in an order it owns, and hands the trees to
// go/packages.
type FsetOrder struct {
	Policy int // 0 sorted by path, 1 reverse, 2 ordered by hash(seed, path)
	Seed   uint64
}

const parseMode = parser.AllErrors | parser.ParseComments

type parsedFile struct {
	f   *ast.File
	err error
}

// preparse registers the non-test files of the given directories in the file
// set in the wanted order and returns a ParseFile hook serving them.
func preparse(fset *token.FileSet, dirs []string, ord FsetOrder) func(*token.FileSet, string, []byte) (*ast.File, error) {
	var paths []string
	for _, d := range dirs {
		gos, _ := filepath.Glob(filepath.Join(d, "*.go"))
		for _, g := range gos {
			if !strings.HasSuffix(g, "_test.go") {
				paths = append(paths, g)
			}
		}
	}
	sort.Strings(paths)
	switch ord.Policy {
	case 1:
		for i, j := 0, len(paths)-1; i < j; i, j = i+1, j-1 {
			paths[i], paths[j] = paths[j], paths[i]
		}
	case 2:
		key := func(p string) uint64 { return simrt.NewRand(ord.Seed, "fset/"+p).Uint64() }
		sort.SliceStable(paths, func(i, j int) bool { return key(paths[i]) < key(paths[j]) })
	}
	var mu sync.Mutex
	cache := map[string]*parsedFile{}
	for _, p := range paths {
		f, err := parser.ParseFile(fset, p, nil, parseMode)
		cache[p] = &parsedFile{f, err}
	}
	return func(fs *token.FileSet, filename string, src []byte) (*ast.File, error) {
		mu.Lock()
		pf := cache[filename]
		delete(cache, filename) // a tree is handed out once
		mu.Unlock()
		if pf != nil && fs == fset {
			return pf.f, pf.err
		}
		return parser.ParseFile(fs, filename, src, parseMode)
	}
}

// corpusDirs lists the package directories of the corpus: every maintainer
// example package, the odd-syntax sanity package and the hand-written corpus.
func corpusDirs(repo string) (map[string]string, error) {
	out := map[string]string{}
	td := filepath.Join(repo, "checkers", "testdata")
	ents, err := os.ReadDir(td)
	if err != nil {
		return nil, err
	}
	for _, e := range ents {
		if !e.IsDir() || strings.HasPrefix(e.Name(), "_") {
			continue
		}
		gos, _ := filepath.Glob(filepath.Join(td, e.Name(), "*.go"))
		if len(gos) == 0 {
			continue
		}
		out[e.Name()] = filepath.Join(td, e.Name())
	}
	sanity := filepath.Join(repo, "checkers", "internal", "linttest", "testdata", "sanity")
	if st, err := os.Stat(sanity); err == nil && st.IsDir() {
		out["sanity"] = sanity
	}
	return out, nil
}

// LoadCorpus loads the named packages (all when names is empty).
func LoadCorpus(repo string, names []string, extra map[string]string, ord FsetOrder) (*Corpus, error) {
	dirs, err := corpusDirs(repo)
	if err != nil {
		return nil, err
	}
	for k, v := range extra {
		dirs[k] = v
	}
	if len(names) == 0 {
		for n := range dirs {
			names = append(names, n)
		}
	}
	sort.Strings(names)
	c := &Corpus{Fset: token.NewFileSet(), Sizes: types.SizesFor("gc", runtime.GOARCH), Pkgs: map[string]*CorpusPkg{}}
	// group by the module root they must be loaded from
	var repoPatterns []string
	byDir := map[string]string{}
	for _, n := range names {
		d, ok := dirs[n]
		if !ok {
			return nil, fmt.Errorf("corpus: unknown package %q", n)
		}
		byDir[d] = n
		repoPatterns = append(repoPatterns, d)
	}
	parseFile := preparse(c.Fset, repoPatterns, ord)
	var pkgs []*packages.Package
	var own, ext []string
	for _, d := range repoPatterns {
		if strings.HasPrefix(d, repo+string(os.PathSeparator)) {
			own = append(own, d)
		} else {
			ext = append(ext, d)
		}
	}
	if len(own) > 0 {
		cfg := &packages.Config{Mode: loadMode, Tests: false, Fset: c.Fset, Dir: filepath.Join(repo, "checkers"), ParseFile: parseFile}
		ps, err := packages.Load(cfg, own...)
		if err != nil {
			return nil, fmt.Errorf("corpus load: %w", err)
		}
		pkgs = append(pkgs, ps...)
	}
	// hand-written corpus: packages of the simulator's own modules, loaded per module root
	byRoot := map[string][]string{}
	for _, d := range ext {
		root := d
		for root != "/" {
			if _, err := os.Stat(filepath.Join(root, "go.mod")); err == nil {
				break
			}
			root = filepath.Dir(root)
		}
		byRoot[root] = append(byRoot[root], d)
	}
	var roots []string
	for r := range byRoot {
		roots = append(roots, r)
	}
	sort.Strings(roots)
	for _, root := range roots {
		cfg := &packages.Config{Mode: loadMode, Tests: false, Fset: c.Fset, Dir: root, ParseFile: parseFile}
		ps, err := packages.Load(cfg, byRoot[root]...)
		if err != nil {
			return nil, fmt.Errorf("corpus load (hand-written, %s): %w", root, err)
		}
		pkgs = append(pkgs, ps...)
	}
	for _, p := range pkgs {
		if len(p.CompiledGoFiles) == 0 || len(p.Syntax) == 0 {
			continue
		}
		dir := filepath.Dir(p.CompiledGoFiles[0])
		n, ok := byDir[dir]
		if !ok {
			continue
		}
		cp := &CorpusPkg{Name: n, Dir: dir, Pkg: p, HasErrors: len(p.Errors) > 0}
		for _, f := range p.Syntax {
			cp.Files = append(cp.Files, f)
			cp.FileNames = append(cp.FileNames, filepath.Base(c.Fset.Position(f.Pos()).Filename))
		}
		if p.TypesInfo == nil || p.Types == nil {
			continue
		}
		c.Pkgs[n] = cp
	}
	for _, n := range names {
		if _, ok := c.Pkgs[n]; ok {
			c.Names = append(c.Names, n)
		}
	}
	if len(c.Names) == 0 {
		return nil, fmt.Errorf("corpus: nothing loaded")
	}
	return c, nil
}

// View builds the packages.Package a visit hands to the front-end: the same
// package with a subset / permutation of its files.
func (cp *CorpusPkg) View(files []int) *packages.Package {
	v := *cp.Pkg
	v.Syntax = nil
	for _, i := range files {
		v.Syntax = append(v.Syntax, cp.Files[i])
	}
	return &v
}

// PermutedFile returns a shallow copy of file i whose non-import declarations
// are permuted by seed (the identity for seed 0). The permutation depends only
// on (seed, i, number of declarations), so independently loaded copies of the
// package get the same one.
func (cp *CorpusPkg) PermutedFile(i int, seed uint64) *ast.File {
	f := cp.Files[i]
	if seed == 0 {
		return f
	}
	var slots []int
	for k, d := range f.Decls {
		if gd, ok := d.(*ast.GenDecl); ok && gd.Tok == token.IMPORT {
			continue
		}
		slots = append(slots, k)
	}
	if len(slots) < 2 {
		return f
	}
	r := simrt.NewRand(seed, fmt.Sprintf("decl/%d/%d", i, len(slots)))
	perm := r.Perm(len(slots))
	g := *f
	g.Decls = append([]ast.Decl(nil), f.Decls...)
	for k, s := range slots {
		g.Decls[s] = f.Decls[slots[perm[k]]]
	}
	return &g
}

// ViewPermuted is View with permuted declaration order.
func (cp *CorpusPkg) ViewPermuted(files []int, seed uint64) *packages.Package {
	v := *cp.Pkg
	v.Syntax = nil
	for _, i := range files {
		v.Syntax = append(v.Syntax, cp.PermutedFile(i, seed))
	}
	return &v
}

// AllFiles is the identity file order.
func (cp *CorpusPkg) AllFiles() []int {
	out := make([]int, len(cp.Files))
	for i := range out {
		out[i] = i
	}
	return out
}

// CorpusIndex is the directory-level view of the corpus (names and file
// lists), available without type-checking anything. Run generation works on
// the index, so a worker loads only the packages its runs visit.
type CorpusIndex struct {
	Names []string
	Files map[string][]string
	Dirs  map[string]string
}

func BuildIndex(repo string, extra map[string]string) (*CorpusIndex, error) {
	dirs, err := corpusDirs(repo)
	if err != nil {
		return nil, err
	}
	for k, v := range extra {
		dirs[k] = v
	}
	ix := &CorpusIndex{Files: map[string][]string{}, Dirs: dirs}
	for n, d := range dirs {
		var fs []string
		if bp, err := build.Default.ImportDir(d, 0); err == nil && len(bp.CgoFiles) == 0 {
			// build-constraint aware (real-world packages have per-OS files)
			fs = append(fs, bp.GoFiles...)
		} else {
			gos, _ := filepath.Glob(filepath.Join(d, "*.go"))
			for _, g := range gos {
				b := filepath.Base(g)
				if strings.HasSuffix(b, "_test.go") {
					continue
				}
				fs = append(fs, b)
			}
		}
		sort.Strings(fs)
		if len(fs) == 0 {
			continue
		}
		ix.Names = append(ix.Names, n)
		ix.Files[n] = fs
	}
	sort.Strings(ix.Names)
	return ix, nil
}

// Digest identifies the corpus as found on disk (package names, file names, sizes and
// modification times): every process of one check must see the same corpus, else run
// indices do not mean the same runs.
func (ix *CorpusIndex) Digest(dirs map[string]string) string {
	var parts []string
	for _, n := range ix.Names {
		parts = append(parts, n)
		for _, f := range ix.Files[n] {
			st, err := os.Stat(filepath.Join(dirs[n], f))
			if err != nil {
				parts = append(parts, f+":gone")
				continue
			}
			parts = append(parts, fmt.Sprintf("%s:%d:%d", f, st.Size(), st.ModTime().UnixNano()))
		}
	}
	return hashStrings(parts...)
}

// AllFiles is the identity file order of package n.
func (ix *CorpusIndex) AllFiles(n string) []int {
	out := make([]int, len(ix.Files[n]))
	for i := range out {
		out[i] = i
	}
	return out
}

// Verify checks that a loaded corpus agrees with the index.
func (ix *CorpusIndex) Verify(c *Corpus) error {
	for _, n := range c.Names {
		cp := c.Pkgs[n]
		want := ix.Files[n]
		if len(want) != len(cp.FileNames) {
			return fmt.Errorf("corpus index disagrees with loader for %s: %v vs %v", n, want, cp.FileNames)
		}
		for i := range want {
			if want[i] != cp.FileNames[i] {
				return fmt.Errorf("corpus index disagrees with loader for %s: %v vs %v", n, want, cp.FileNames)
			}
		}
	}
	return nil
}
