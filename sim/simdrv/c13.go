package simdrv

import (
	"encoding/json"
	"fmt"
	"go/ast"
	"go/parser"
	"go/token"
	"go/types"
	"os"
	"path/filepath"
	"regexp"
	"sort"
	"strings"

	"github.com/go-critic/go-critic/linter"
	"verif.local/gcsim/simapi"
	"verif.local/gcsim/simrt"
)

// C13: diagnostics are local. A checker is a stateful visitor fed a sequence
// of declaration visits; the per-declaration outcome must not depend on that
// history.
//
//   decl-perm  the positions of plain functions inside f.Decls are permuted on
//              the already type-checked file (no re-parse: node identities,
//              types and positions are untouched; only the order in which the
//              walker delivers declarations changes).
//   source     the file is split into chunks (a declaration with its leading
//              comments and expectation lines), plain-function chunks are
//              permuted, blank lines / padding declarations are inserted,
//              unrelated plain functions are appended; the result is re-parsed
//              and re-type-checked in memory. The maintainers' `/*! */`
//              expectations travel with their chunk.

var c13Exempt = map[string]bool{"dupImport": true, "typeDefFirst": true, "codegenComment": true, "commentedOutImport": true}

// the configuration checkers_test.go runs the examples under
var c13HarnessParams = map[string]map[string]any{
	"captLocal":        {"paramsOnly": false},
	"commentedOutCode": {"minLength": 9},
}

// c13PadKinds is the vocabulary of padding declarations (format verbs take a unique index).
var c13PadKinds = []string{"\n", "\n\n\n", "var gcsimPad%d int\n", "func gcsimPad%d() {}\n", "type gcsimPadT%d struct{}\n", "// padding comment %d\n\n", "\n\nconst gcsimPadC%d = %d\n\n",
	"func gcsimPadExtern%d(x int) int\n",                               // a function without a body (implemented elsewhere): legal
	"func (gcsimPadRecv%d) pad() {}\n\ntype gcsimPadRecv%d struct{}\n", // a method before its receiver type
	"func init() {}\n",
	// declarations whose last type expression is "flat" (slice, array, pointer, channel,
	// map over plain names) or a func / interface type: one-shot walker flags set while
	// visiting a type expression must not survive the declaration
	"type gcsimPadSl%d []int\n", "var gcsimPadMp%d map[string]int\n", "func gcsimPadPt%d(p *int) []string { return nil }\n",
	"type gcsimPadCh%d chan struct{}\n", "var gcsimPadAr%d [4]byte\n", "type gcsimPadFn%d func(int) error\n", "type gcsimPadIf%d interface{ M() }\n"}

// padOfKind renders padding kind k with index i.
func padOfKind(k, i int) string {
	t := c13PadKinds[k%len(c13PadKinds)]
	switch strings.Count(t, "%d") {
	case 2:
		return fmt.Sprintf(t, i, i)
	case 1:
		return fmt.Sprintf(t, i)
	}
	if strings.HasPrefix(t, "func init") && i > 0 {
		return "\n" // one init function per file is enough
	}
	return t
}

type padSpec struct {
	Before int    `json:"before"` // chunk index (in output order) the padding precedes
	Text   string `json:"text"`
	// CloneOf k > 0: the padding is a renamed copy of the k-th plain function of the
	// file (mod their number), expectation lines blanked: unrelated code that shares
	// its text - comments, literals, identifiers - with an existing declaration.
	CloneOf int `json:"clone_of,omitempty"`
}

type c13Extra struct {
	Mode   string    `json:"mode"`
	File   int       `json:"file"`
	Perm   []int     `json:"perm,omitempty"` // permutation of the movable slots
	Pads   []padSpec `json:"pads,omitempty"`
	Append int       `json:"append,omitempty"`
	// Variant selects a systematic permutation: 0 reversal, k>0 rotation by k
	// (while k < number of movable functions), else the random Perm.
	Variant int `json:"variant"`
	// CloneAll (source mode): 1 = a renamed copy of EVERY plain function is put in
	// front of the first declaration, 2 = after the last one.
	CloneAll int `json:"clone_all,omitempty"`
	// PadEvery > 0 (source mode): a padding declaration in front of EVERY chunk, chunk j
	// getting kind (j + PadEvery) of the vocabulary - every declaration gets every kind of
	// neighbour over the variants.
	PadEvery int `json:"pad_every,omitempty"`
}

func (w *Worker) genC13(rc *simapi.RunConfig) {
	r := simrt.NewRand(rc.RunSeed, "work")
	n := len(w.index.Names)
	p := w.index.Names[rc.Index%n]
	nf := len(w.index.Files[p])
	ex := c13Extra{File: (rc.Index / n) % nf}
	rc.Visits = []simapi.Visit{{Pkg: p, Files: []int{ex.File}}}
	if (rc.Index/(n*nf))%2 == 0 {
		ex.Mode = "decl-perm"
		rc.Kind = "decl-perm"
	} else {
		ex.Mode = "source"
		rc.Kind = "source-transform"
		np := r.Intn(4)
		pads := c13PadKinds
		for i := 0; i < np; i++ {
			t := pads[r.Intn(len(pads))]
			if strings.Contains(t, "gcsimPadRecv") {
				t = fmt.Sprintf(t, i, i)
			} else if strings.Count(t, "%d") == 2 {
				t = fmt.Sprintf(t, i, i)
			} else if strings.Contains(t, "%d") {
				t = fmt.Sprintf(t, i)
			}
			ex.Pads = append(ex.Pads, padSpec{Before: r.Intn(40), Text: t})
		}
		ex.Append = r.Intn(3)
		if r.Intn(3) == 0 {
			ex.Pads = append(ex.Pads, padSpec{Before: r.Intn(40), CloneOf: 1 + r.Intn(24)})
		}
	}
	// the permutation is drawn against a generous bound and reduced to the
	// actual number of movable slots when the run executes; the first variants
	// of a file are systematic (reversal, then rotations: every function gets to
	// be visited first), later ones random
	variant := rc.Index / (n * nf * 2)
	ex.Perm = r.Perm(24)
	ex.Variant = variant
	if ex.Mode == "source" {
		ex.CloneAll = variant % 3 // the second and third source variant of every file are systematic
		if ex.CloneAll == 2 {
			ex.PadEvery = 1 + variant/3
		}
		if ex.CloneAll == 1 {
			// ... and the second one ends the file with whichever function the rotation
			// put last: nothing appended, no padding (end-of-file is an edge of its own)
			ex.Append = 0
			var keep []padSpec
			for _, p := range ex.Pads {
				if p.CloneOf != 0 {
					keep = append(keep, p)
				}
			}
			ex.Pads = keep
			for i := range ex.Pads {
				ex.Pads[i].Before = 0
			}
		}
	}
	// selection: the package's own checker plus a few others; every fifth run all of them
	wl := &Workload{Params: map[string]map[string]any{}}
	if rc.Index%5 == 4 || w.infoBy[p] == nil {
		// packages that are not one checker's examples are there for all of them
		wl.EnableAll = true
	} else {
		set := map[string]bool{}
		if w.infoBy[p] != nil {
			set[p] = true
		}
		for i := 0; i < 6; i++ {
			set[w.infos[r.Intn(len(w.infos))].Name] = true
		}
		for c := range set {
			wl.Checkers = append(wl.Checkers, c)
		}
		sort.Strings(wl.Checkers)
	}
	rc.Args = wl.Args()
	rc.Extra, _ = json.Marshal(ex)
}

var expectRE = regexp.MustCompile(`^\s*/\*! (.*) \*/`)

// parseExpectations reads the `/*! text */` directives: each binds to the next source line.
func parseExpectations(src string) map[int][]string {
	ws := map[int][]string{}
	var pending []string
	for i, ln := range strings.Split(src, "\n") {
		if m := expectRE.FindStringSubmatch(ln); m != nil {
			pending = append(pending, m[1])
		} else if len(pending) != 0 {
			ws[i+1] = pending
			pending = nil
		}
	}
	return ws
}

// stripDirectives does what the repository's test harness does before checking.
func stripDirectives(f *ast.File) {
	for _, cg := range f.Comments {
		for _, c := range cg.List {
			if strings.HasPrefix(c.Text, "/// ") {
				c.Text = "//"
			}
		}
	}
}

// permFor picks the permutation of n movable slots for a run.
func permFor(ex *c13Extra, n int) []int {
	out := make([]int, n)
	switch {
	case ex.Variant == 0:
		for i := range out {
			out[i] = n - 1 - i
		}
		return out
	case ex.Variant < n:
		for i := range out {
			out[i] = (i + ex.Variant) % n
		}
		return out
	}
	return reduceTo(ex.Perm, n)
}

// reduceTo maps a permutation of [0,24) to a permutation of [0,n).
func reduceTo(perm []int, n int) []int {
	var out []int
	for _, v := range perm {
		if v < n {
			out = append(out, v)
		}
	}
	for len(out) < n { // n > 24
		out = append(out, len(out))
	}
	return out
}

func plainFunc(d ast.Decl) bool {
	fd, ok := d.(*ast.FuncDecl)
	return ok && fd.Recv == nil
}

// runFresh runs freshly constructed checkers over one file.
func (w *Worker) runFresh(names []string, fset *token.FileSet, sizes types.Sizes, info *types.Info, pkg *types.Package, pkgName, fileName string, f *ast.File) (map[string][]Diag, string) {
	out := map[string][]Diag{}
	ctx := linter.NewContext(fset, sizes)
	var cs []*linter.Checker
	for _, n := range names {
		c, err := linter.NewChecker(ctx, w.infoBy[n])
		if err != nil {
			return nil, "constructor: " + err.Error()
		}
		cs = append(cs, c)
	}
	ctx.SetPackageInfo(info, pkg)
	ctx.SetFileInfo(fileName, f)
	for _, c := range cs {
		ws, pan := safeCheck(c, f)
		if pan != "" {
			return nil, fmt.Sprintf("%s panicked: %s", c.Info.Name, pan)
		}
		for _, wn := range ws {
			out[c.Info.Name] = append(out[c.Info.Name], diagFromWarning(fset, pkgName, c.Info.Name, wn))
		}
	}
	return out, ""
}

// runFreshPkg runs freshly constructed checkers over the files of a package in order.
func (w *Worker) runFreshPkg(names []string, fset *token.FileSet, sizes types.Sizes, info *types.Info, pkg *types.Package, pkgName string, fileNames []string, files []*ast.File) (map[string][]Diag, string) {
	out := map[string][]Diag{}
	ctx := linter.NewContext(fset, sizes)
	var cs []*linter.Checker
	for _, n := range names {
		c, err := linter.NewChecker(ctx, w.infoBy[n])
		if err != nil {
			return nil, "constructor: " + err.Error()
		}
		cs = append(cs, c)
	}
	ctx.SetPackageInfo(info, pkg)
	for i, f := range files {
		ctx.SetFileInfo(fileNames[i], f)
		for _, c := range cs {
			ws, pan := safeCheck(c, f)
			if pan != "" {
				return nil, fmt.Sprintf("%s panicked on %s: %s", c.Info.Name, fileNames[i], pan)
			}
			for _, wn := range ws {
				out[c.Info.Name] = append(out[c.Info.Name], diagFromWarning(fset, pkgName, c.Info.Name, wn))
			}
		}
	}
	return out, ""
}

func onlyFile(all map[string][]Diag, file string) map[string][]Diag {
	out := map[string][]Diag{}
	for c, ds := range all {
		for _, d := range ds {
			if d.File == file {
				out[c] = append(out[c], d)
			}
		}
	}
	return out
}

func (w *Worker) c13Setup(rc *simapi.RunConfig) (*Workload, []string) {
	wl := w.parseWorkload(rc.Args)
	w.restoreParams()
	for c, ps := range c13HarnessParams {
		for p, v := range ps {
			w.infoBy[c].Params[p].Value = v
		}
	}
	var names []string
	for _, c := range wl.Checkers {
		if !c13Exempt[c] && c != "ruleguard" {
			names = append(names, c)
		}
	}
	if !w.stripped {
		for _, cp := range w.corpus.Pkgs {
			for _, f := range cp.Files {
				stripDirectives(f)
			}
		}
		w.stripped = true
	}
	simrt.SetMapPolicy(simrt.MapCanonical, 0)
	return wl, names
}

func (w *Worker) runC13Perm(rc *simapi.RunConfig) *simapi.RunResult {
	res := &simapi.RunResult{Stats: map[string]int64{}, Probes: map[string]int64{}}
	var ex c13Extra
	json.Unmarshal(rc.Extra, &ex)
	_, names := w.c13Setup(rc)
	defer w.restoreParams()
	pkg := rc.Visits[0].Pkg
	cp := w.corpus.Pkgs[pkg]
	f := cp.Files[ex.File]
	var slots []int
	for i, d := range f.Decls {
		if plainFunc(d) {
			slots = append(slots, i)
		}
	}
	perm := permFor(&ex, len(slots))
	g := *f
	g.Decls = append([]ast.Decl(nil), f.Decls...)
	moved := 0
	for k, s := range slots {
		g.Decls[s] = f.Decls[slots[perm[k]]]
		if perm[k] != k {
			moved++
		}
	}
	// One checker instance per checker walks the files of the package in
	// order, as the repository's own harness does; only the target file's
	// plain functions are reordered.
	plainFiles := append([]*ast.File(nil), cp.Files...)
	permFiles := append([]*ast.File(nil), cp.Files...)
	permFiles[ex.File] = &g
	baseAll, err1 := w.runFreshPkg(names, w.corpus.Fset, w.corpus.Sizes, cp.Pkg.TypesInfo, cp.Pkg.Types, pkg, cp.FileNames, plainFiles)
	gotAll, err2 := w.runFreshPkg(names, w.corpus.Fset, w.corpus.Sizes, cp.Pkg.TypesInfo, cp.Pkg.Types, pkg, cp.FileNames, permFiles)
	base, got := onlyFile(baseAll, cp.FileNames[ex.File]), onlyFile(gotAll, cp.FileNames[ex.File])
	// files after the target must not be affected either
	for _, c := range names {
		a, b := sortedKeys(gotAll[c], false), sortedKeys(baseAll[c], false)
		if oa, ob := multisetDiff(a, b); len(oa)+len(ob) > 0 && err1 == "" && err2 == "" {
			res.Violations = append(res.Violations, simapi.Violation{Class: "depends-on-declaration-order", Identity: "depends-on-declaration-order:" + c,
				Detail: fmt.Sprintf("%s over the files of %s in order (one instance, as the test harness runs it), with the plain functions of %s visited in order %v (positions untouched, no re-parse): only reordered [%s]; only original [%s]",
					c, pkg, cp.FileNames[ex.File], perm, joinShort(oa, 3), joinShort(ob, 3))})
		}
	}
	if err1 != "" {
		res.Verdict = "skip"
		res.Notes = append(res.Notes, "unpermuted run fails (not judged): "+err1)
		return res
	}
	if err2 != "" {
		res.Violations = append(res.Violations, simapi.Violation{Class: "panic-after-reorder", Identity: "panic-after-reorder:" + pkg,
			Detail: fmt.Sprintf("%s/%s with plain functions reordered %v: %s", pkg, cp.FileNames[ex.File], perm, err2)})
		return res
	}
	ndiag := 0
	for _, c := range names {
		ndiag += len(baseAll[c])
	}
	// the maintainers' expectations for the package's own checker
	if w.infoBy[pkg] != nil && !c13Exempt[pkg] && contains(names, pkg) {
		src, _ := os.ReadFile(filepath.Join(cp.Dir, cp.FileNames[ex.File]))
		exp := parseExpectations(string(src))
		var want []string
		for ln, ts := range exp {
			for _, t := range ts {
				want = append(want, fmt.Sprintf("%d: %s", ln, t))
			}
		}
		sort.Strings(want)
		key := func(ds []Diag) []string {
			var o []string
			for _, d := range ds {
				o = append(o, fmt.Sprintf("%d: %s", d.Line, d.Text))
			}
			sort.Strings(o)
			return o
		}
		b0a, b0b := multisetDiff(key(base[pkg]), want)
		if len(b0a)+len(b0b) == 0 {
			oa, ob := multisetDiff(key(got[pkg]), want)
			if len(oa)+len(ob) > 0 && len(res.Violations) == 0 {
				res.Violations = append(res.Violations, simapi.Violation{Class: "expectations-broken-by-reorder", Identity: "expectations-broken-by-reorder:" + pkg,
					Detail: fmt.Sprintf("%s/%s reordered %v: unexpected [%s]; missing [%s]", pkg, cp.FileNames[ex.File], perm, joinShort(oa, 3), joinShort(ob, 3))})
			}
			res.Stats["expectation_oracle_used"]++
		} else {
			res.Stats["expectation_precondition_failed"]++
		}
	}
	res.NonTrivial = moved >= 1 && (ndiag >= 1 || res.Stats["expectation_oracle_used"] >= 1)
	res.Stats["functions_moved"] = int64(moved)
	res.Stats["diagnostics"] = int64(ndiag)
	res.Stats["checkers"] = int64(len(names))
	res.DecisionID = hashStrings(rc.Visits[0].Pkg, fmt.Sprint(ex.File, perm), strings.Join(names, ","))
	res.Digest = hashStrings(res.DecisionID, fmt.Sprint(ndiag, len(res.Violations)))
	return res
}

func contains(ss []string, s string) bool {
	for _, x := range ss {
		if x == s {
			return true
		}
	}
	return false
}

type mapImporter map[string]*types.Package

func (m mapImporter) Import(path string) (*types.Package, error) {
	if p, ok := m[path]; ok && p != nil {
		return p, nil
	}
	return nil, fmt.Errorf("package %s is not among the loaded imports", path)
}

type chunk struct {
	text    string
	first   int // first original line of the chunk (1-based)
	movable bool
	nameOff int // offset of the function name inside text (movable chunks)
	nameLen int
}

var expectLineRE = regexp.MustCompile(`(?m)^[ \t]*/\*! .* \*/[ \t]*$`)

// cloneText is the chunk of a plain function under a new name, without its expectation lines.
func cloneText(c chunk, newName string) string {
	t := c.text[:c.nameOff] + newName + c.text[c.nameOff+c.nameLen:]
	return expectLineRE.ReplaceAllString(t, "")
}

// splitChunks cuts a file into header, one chunk per top-level declaration
// (with its leading comments) and the trailing text.
func splitChunks(fset *token.FileSet, f *ast.File, src string) (header chunk, chunks []chunk, trailer chunk, ok bool) {
	lineStart := []int{0}
	for i := 0; i < len(src); i++ {
		if src[i] == '\n' {
			lineStart = append(lineStart, i+1)
		}
	}
	endOfLine := func(line int) int { // offset just after the newline of 1-based line
		if line < len(lineStart) {
			return lineStart[line]
		}
		return len(src)
	}
	lastImport := -1
	for i, d := range f.Decls {
		if gd, isGen := d.(*ast.GenDecl); isGen && gd.Tok == token.IMPORT {
			lastImport = i
		}
	}
	hdrEndLine := fset.Position(f.Name.End()).Line
	if lastImport >= 0 {
		hdrEndLine = fset.Position(f.Decls[lastImport].End()).Line
	}
	cur := endOfLine(hdrEndLine)
	header = chunk{text: src[:cur], first: 1}
	curLine := hdrEndLine + 1
	for i := lastImport + 1; i < len(f.Decls); i++ {
		d := f.Decls[i]
		startLine := fset.Position(d.Pos()).Line
		endLine := fset.Position(d.End()).Line
		if startLine < curLine {
			return header, nil, trailer, false // two declarations on one line
		}
		e := endOfLine(endLine)
		ch := chunk{text: src[cur:e], first: curLine, movable: plainFunc(d)}
		if fd, isFn := d.(*ast.FuncDecl); isFn {
			ch.nameOff = fset.Position(fd.Name.Pos()).Offset - cur
			ch.nameLen = len(fd.Name.Name)
			if ch.nameOff < 0 || ch.nameOff+ch.nameLen > len(ch.text) || ch.text[ch.nameOff:ch.nameOff+ch.nameLen] != fd.Name.Name {
				ch.nameLen = 0 // file on disk and tree disagree: never cloned
			}
		}
		chunks = append(chunks, ch)
		cur = e
		curLine = endLine + 1
	}
	trailer = chunk{text: src[cur:], first: curLine}
	return header, chunks, trailer, true
}

func countLines(s string) int { return strings.Count(s, "\n") }

func (w *Worker) runC13Source(rc *simapi.RunConfig) *simapi.RunResult {
	res := &simapi.RunResult{Stats: map[string]int64{}, Probes: map[string]int64{}}
	var ex c13Extra
	json.Unmarshal(rc.Extra, &ex)
	_, names := w.c13Setup(rc)
	defer w.restoreParams()
	pkg := rc.Visits[0].Pkg
	cp := w.corpus.Pkgs[pkg]
	if cp.HasErrors {
		res.Verdict = "skip"
		res.Notes = append(res.Notes, "package has type errors by design; source transformation not applied")
		return res
	}
	f := cp.Files[ex.File]
	path := filepath.Join(cp.Dir, cp.FileNames[ex.File])
	srcB, err := os.ReadFile(path)
	if err != nil {
		res.Verdict = "harness-error"
		res.Notes = append(res.Notes, err.Error())
		return res
	}
	src := string(srcB)
	if !strings.HasSuffix(src, "\n") {
		src += "\n"
	}
	header, chunks, trailer, ok := splitChunks(w.corpus.Fset, f, src)
	if !ok {
		res.Verdict = "skip"
		res.Notes = append(res.Notes, "two top-level declarations share a line; not split")
		return res
	}
	var slots []int
	for i, c := range chunks {
		if c.movable {
			slots = append(slots, i)
		}
	}
	perm := permFor(&ex, len(slots))
	order := make([]int, len(chunks))
	for i := range order {
		order[i] = i
	}
	moved := 0
	for k, s := range slots {
		order[s] = slots[perm[k]]
		if perm[k] != k {
			moved++
		}
	}
	// assemble, tracking for every output line the original line (0 = padding)
	var out strings.Builder
	var origin []int // origin[newLine-1] = original line
	emit := func(c chunk, orig bool) {
		out.WriteString(c.text)
		n := countLines(c.text)
		for i := 0; i < n; i++ {
			if orig {
				origin = append(origin, c.first+i)
			} else {
				origin = append(origin, 0)
			}
		}
	}
	emit(header, true)
	padded, cloned := 0, 0
	padText := func(k int, p padSpec) string {
		if p.CloneOf == 0 {
			return p.Text
		}
		if len(slots) == 0 {
			return ""
		}
		src := chunks[slots[(p.CloneOf-1)%len(slots)]]
		if src.nameLen == 0 {
			return ""
		}
		cloned++
		return "\n" + cloneText(src, fmt.Sprintf("gcsimClone%d", k)) + "\n"
	}
	cloneAll := func() {
		for k, si := range slots {
			if chunks[si].nameLen == 0 {
				continue
			}
			emit(chunk{text: "\n" + cloneText(chunks[si], fmt.Sprintf("gcsimCloneAll%d", k)) + "\n"}, false)
			cloned++
			padded++
		}
	}
	if ex.CloneAll == 1 {
		cloneAll()
	}
	for pos, ci := range order {
		if ex.PadEvery > 0 {
			emit(chunk{text: padOfKind(pos+ex.PadEvery, 1000+pos)}, false)
			padded++
		}
		for k, p := range ex.Pads {
			if p.Before%(len(order)+1) == pos {
				if t := padText(k, p); t != "" {
					emit(chunk{text: t}, false)
					padded++
				}
			}
		}
		emit(chunks[ci], true)
	}
	for k, p := range ex.Pads {
		if p.Before%(len(order)+1) == len(order) {
			if t := padText(k, p); t != "" {
				emit(chunk{text: t}, false)
				padded++
			}
		}
	}
	emit(trailer, true)
	if ex.CloneAll == 2 {
		cloneAll()
	}
	for i := 0; i < ex.Append; i++ {
		emit(chunk{text: fmt.Sprintf("\nfunc gcsimTail%d(a int) int {\n\treturn a\n}\n", i)}, false)
	}
	newSrc := out.String()
	newLineOf := map[int]int{}
	for nl, ol := range origin {
		if ol != 0 {
			newLineOf[ol] = nl + 1
		}
	}
	// re-parse and re-type-check the package in memory
	fset := token.NewFileSet()
	var files []*ast.File
	var target *ast.File
	for i, fn := range cp.FileNames {
		var pf *ast.File
		var perr error
		if i == ex.File {
			// the rule engine renders matched code by reading the file named in
			// the file set from disk, so the transformed source must exist there
			tdir := filepath.Join(w.tmpDir(), pkg)
			os.MkdirAll(tdir, 0o755)
			tpath := filepath.Join(tdir, fn)
			if werr := os.WriteFile(tpath, []byte(newSrc), 0o644); werr != nil {
				res.Verdict = "harness-error"
				res.Notes = append(res.Notes, werr.Error())
				return res
			}
			defer os.Remove(tpath)
			pf, perr = parser.ParseFile(fset, tpath, nil, parser.ParseComments)
			target = pf
		} else {
			pf, perr = parser.ParseFile(fset, filepath.Join(cp.Dir, fn), nil, parser.ParseComments)
		}
		if perr != nil && cloned > 0 {
			res.Verdict = "skip"
			res.Notes = append(res.Notes, "transformation with a cloned function does not parse (not applied): "+perr.Error())
			return res
		}
		if perr != nil {
			res.Verdict = "harness-error"
			res.Notes = append(res.Notes, "transformed source does not parse: "+perr.Error())
			return res
		}
		stripDirectives(pf)
		files = append(files, pf)
	}
	imp := mapImporter{}
	for p, ip := range cp.Pkg.Imports {
		imp[p] = ip.Types
	}
	info := &types.Info{
		Types: map[ast.Expr]types.TypeAndValue{}, Defs: map[*ast.Ident]types.Object{}, Uses: map[*ast.Ident]types.Object{},
		Implicits: map[ast.Node]types.Object{}, Selections: map[*ast.SelectorExpr]*types.Selection{}, Scopes: map[ast.Node]*types.Scope{},
		Instances: map[*ast.Ident]types.Instance{}, FileVersions: map[*ast.File]string{},
	}
	var terrs []string
	tc := types.Config{Importer: imp, Sizes: w.corpus.Sizes, Error: func(e error) { terrs = append(terrs, e.Error()) }}
	tpkg, _ := tc.Check(cp.Pkg.PkgPath, fset, files, info)
	if len(terrs) > 0 && cloned > 0 {
		// a copy of a function is not always legal (compiler directives, redeclared labels...)
		res.Verdict = "skip"
		res.Notes = append(res.Notes, "transformation with a cloned function does not type-check (not applied): "+joinShort(terrs, 2))
		return res
	}
	if len(terrs) > 0 {
		res.Verdict = "harness-error"
		res.Notes = append(res.Notes, "transformed package does not type-check: "+joinShort(terrs, 3))
		return res
	}
	base, err1 := w.runFresh(names, w.corpus.Fset, w.corpus.Sizes, cp.Pkg.TypesInfo, cp.Pkg.Types, pkg, cp.FileNames[ex.File], f)
	if err1 != "" {
		res.Verdict = "skip"
		res.Notes = append(res.Notes, "untransformed run fails (not judged): "+err1)
		return res
	}
	got, err2 := w.runFresh(names, fset, w.corpus.Sizes, info, tpkg, pkg, cp.FileNames[ex.File], target)
	if err2 != "" {
		res.Violations = append(res.Violations, simapi.Violation{Class: "panic-after-transform", Identity: "panic-after-transform:" + pkg,
			Detail: fmt.Sprintf("%s/%s after %s: %s", pkg, cp.FileNames[ex.File], describeTransform(perm, ex), err2)})
		return res
	}
	lineText := regexp.MustCompile(`\blines? \d+`)
	ndiag := 0
	compare := func(base, got map[string][]Diag, history string) {
		for _, c := range names {
			var a, b []string
			for _, d := range got[c] {
				if d.Line-1 < len(origin) && origin[d.Line-1] == 0 {
					continue // located in padding
				}
				a = append(a, fmt.Sprintf("%d:%d: %s [fix=%v %q]", d.Line, d.Col, d.Text, d.HasFix, d.FixText))
			}
			skipChecker := false
			for _, d := range base[c] {
				if lineText.MatchString(d.Text) {
					skipChecker = true // the message itself quotes line numbers
				}
				b = append(b, fmt.Sprintf("%d:%d: %s [fix=%v %q]", newLineOf[d.Line], d.Col, d.Text, d.HasFix, d.FixText))
			}
			if skipChecker {
				res.Stats["checkers_quoting_line_numbers_skipped"]++
				continue
			}
			ndiag += len(b)
			sort.Strings(a)
			sort.Strings(b)
			oa, ob := multisetDiff(a, b)
			if len(oa)+len(ob) > 0 {
				res.Violations = append(res.Violations, simapi.Violation{Class: "depends-on-unrelated-code", Identity: "depends-on-unrelated-code:" + c,
					Detail: fmt.Sprintf("%s on %s/%s%s after %s: only transformed [%s]; only original (line-shifted) [%s]",
						c, pkg, cp.FileNames[ex.File], history, describeTransform(perm, ex), joinShort(oa, 3), joinShort(ob, 3))})
			}
		}
	}
	compare(base, got, "")
	// The same file as the LAST one the same checker instances analyse: up to two other
	// files of the package (the ones before it, cyclically) go first, untouched, in both
	// the original and the transformed package. What a checker keeps from an earlier
	// file - a table indexed by line, a scratch set - then meets the shifted positions.
	if nf := len(cp.FileNames); nf > 1 && len(res.Violations) == 0 {
		var idx []int
		for k := 2; k >= 1; k-- {
			if j := ((ex.File-k)%nf + nf) % nf; j != ex.File && (len(idx) == 0 || idx[len(idx)-1] != j) {
				idx = append(idx, j)
			}
		}
		idx = append(idx, ex.File)
		var fn []string
		var f0, f1 []*ast.File
		for _, j := range idx {
			fn = append(fn, cp.FileNames[j])
			f0 = append(f0, cp.Files[j])
			f1 = append(f1, files[j])
		}
		wb, e1 := w.runFreshPkg(names, w.corpus.Fset, w.corpus.Sizes, cp.Pkg.TypesInfo, cp.Pkg.Types, pkg, fn, f0)
		wg, e2 := w.runFreshPkg(names, fset, w.corpus.Sizes, info, tpkg, pkg, fn, f1)
		switch {
		case e1 != "":
			res.Notes = append(res.Notes, "untransformed run after other files fails (not judged): "+e1)
		case e2 != "":
			res.Violations = append(res.Violations, simapi.Violation{Class: "panic-after-transform", Identity: "panic-after-transform:" + pkg,
				Detail: fmt.Sprintf("%s/%s analysed after %v, after %s: %s", pkg, cp.FileNames[ex.File], fn[:len(fn)-1], describeTransform(perm, ex), e2)})
		default:
			compare(onlyFile(wb, cp.FileNames[ex.File]), onlyFile(wg, cp.FileNames[ex.File]), fmt.Sprintf(" (analysed after %v by the same checker instances)", fn[:len(fn)-1]))
			res.Stats["after_other_files_pairs"]++
			res.Probes["c13_after_other_files"]++
		}
	}
	// expectations travel with their chunk
	if w.infoBy[pkg] != nil && !c13Exempt[pkg] && contains(names, pkg) {
		exp0 := parseExpectations(src)
		exp1 := parseExpectations(newSrc)
		toKeys := func(exp map[int][]string) []string {
			var o []string
			for ln, ts := range exp {
				for _, t := range ts {
					o = append(o, fmt.Sprintf("%d: %s", ln, t))
				}
			}
			sort.Strings(o)
			return o
		}
		key := func(ds []Diag, org []int) []string {
			var o []string
			for _, d := range ds {
				if org != nil && d.Line-1 < len(org) && org[d.Line-1] == 0 {
					continue
				}
				o = append(o, fmt.Sprintf("%d: %s", d.Line, d.Text))
			}
			sort.Strings(o)
			return o
		}
		p0a, p0b := multisetDiff(key(base[pkg], nil), toKeys(exp0))
		if len(p0a)+len(p0b) == 0 {
			oa, ob := multisetDiff(key(got[pkg], origin), toKeys(exp1))
			if len(oa)+len(ob) > 0 && len(res.Violations) == 0 {
				res.Violations = append(res.Violations, simapi.Violation{Class: "expectations-broken-by-transform", Identity: "expectations-broken-by-transform:" + pkg,
					Detail: fmt.Sprintf("%s/%s after %s: unexpected [%s]; missing [%s]", pkg, cp.FileNames[ex.File], describeTransform(perm, ex), joinShort(oa, 3), joinShort(ob, 3))})
			}
			res.Stats["expectation_oracle_used"]++
		} else {
			res.Stats["expectation_precondition_failed"]++
		}
	}
	res.NonTrivial = (moved >= 1 || padded >= 1 || ex.Append >= 1) && (ndiag >= 1 || res.Stats["expectation_oracle_used"] >= 1)
	res.Stats["functions_moved"] = int64(moved)
	res.Stats["paddings_inserted"] = int64(padded)
	res.Stats["functions_cloned"] = int64(cloned)
	res.Stats["functions_appended"] = int64(ex.Append)
	res.Stats["diagnostics"] = int64(ndiag)
	res.Stats["checkers"] = int64(len(names))
	res.DecisionID = hashStrings(pkg, fmt.Sprint(ex.File, perm, ex.Pads, ex.Append, ex.CloneAll, ex.PadEvery), strings.Join(names, ","))
	res.Digest = hashStrings(res.DecisionID, fmt.Sprint(ndiag, len(res.Violations)))
	return res
}

func describeTransform(perm []int, ex c13Extra) string {
	cl := ""
	if ex.CloneAll == 1 {
		cl = ", a renamed copy of every plain function inserted before the first declaration"
	} else if ex.CloneAll == 2 {
		cl = ", a renamed copy of every plain function appended"
	}
	if ex.PadEvery > 0 {
		cl += fmt.Sprintf(", a padding declaration in front of every declaration (kinds rotating from %d)", ex.PadEvery)
	}
	return fmt.Sprintf("reordering plain functions %v, %d paddings, %d appended functions%s", perm, len(ex.Pads), ex.Append, cl)
}

// tmpDir is a per-process scratch directory next to the job's output file.
func (w *Worker) tmpDir() string {
	d := w.job.Out + ".tmp"
	os.MkdirAll(d, 0o755)
	return d
}
