//go:build !race

package simdrv

const raceEnabled = false

func raceErrors() int { return 0 }
