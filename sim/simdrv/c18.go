package simdrv

import (
	"encoding/json"
	"fmt"
	"os"
	"sort"
	"strings"

	"github.com/go-critic/go-critic/linter"
	"verif.local/gcsim/model"
	"verif.local/gcsim/simapi"
	"verif.local/gcsim/simrt"
)

// C18: the dynamic `ruleguard` checker's constructor (real: ruleguard parser,
// DSL type-check, importer, engine) against the simulated rule-file disk,
// followed by the real WalkFile on the probe package; judged by the
// executable policy model.

const probePkg = "x_ruleprobe"

type ruleFileSpec = model.RuleFileSpec

type c18Extra = model.RuleRun

const ruleHeader = "package gorules\n\nimport \"github.com/quasilyte/go-ruleguard/dsl\"\n\n"

func groupSrc(g model.RuleGroup) string {
	s := "//doc:summary probe group " + g.Name + "\n"
	if len(g.Tags) > 0 {
		s += "//doc:tags " + strings.Join(g.Tags, " ") + "\n"
	}
	s += "func " + g.Name + "(m dsl.Matcher) {\n\tm.Match(`mark(\"" + g.Name + "\")`).Report(`" + g.Hit + "`)\n}\n\n"
	return s
}

// renderRuleFile returns the content on disk and the fault applied to reads.
func renderRuleFile(sp *ruleFileSpec) ([]byte, simrt.SimFault) {
	src := ruleHeader
	offs := []int{len(src)}
	for _, g := range sp.Groups {
		src += groupSrc(g)
		offs = append(offs, len(src))
	}
	switch sp.Kind {
	case "valid":
		return []byte(src), simrt.SimFault{}
	case "unreadable":
		return []byte(src), simrt.SimFault{Kind: sp.Fault}
	case "torn-boundary":
		return []byte(src), simrt.SimFault{Kind: simrt.FaultShort, Offset: offs[sp.Keep]}
	case "torn-inside":
		// cut in the middle of the first group's body
		cut := offs[0] + strings.Index(src[offs[0]:], "m.Match(") + len("m.Match(`mark(")
		return []byte(src), simrt.SimFault{Kind: simrt.FaultShort, Offset: cut}
	case "empty":
		return []byte(src), simrt.SimFault{Kind: simrt.FaultEmpty}
	case "dsl-violation":
		// type-checks as Go, rejected by the rules DSL
		bad := "func " + sp.Groups[0].Name + "bad(m dsl.Matcher) {\n\tx := 1\n\t_ = x\n}\n"
		return []byte(src + bad), simrt.SimFault{}
	case "bad-import":
		bad := "func " + sp.Groups[0].Name + "imp(m dsl.Matcher) {\n\tm.Import(\"gcsim.invalid/nosuchpkg\")\n\tm.Match(`mark($x)`).Where(m[\"x\"].Type.Implements(`nosuchpkg.T`)).Report(`never`)\n}\n"
		return []byte(src + bad), simrt.SimFault{}
	}
	panic("unknown rule file kind " + sp.Kind)
}

// The policy table: every single rule file and every ORDERED pair of rule files over the ten
// file kinds (valid, four ways of being unreadable, torn at a group boundary, torn inside a
// group, empty, DSL violation, unloadable import) x six failOn forms x the legacy flag x five
// pattern layouts (one glob, exact patterns in order, reversed, a no-match pattern after, before). It is finite and
// small, so it is ENUMERATED - by both tiers, before the sampled scenarios - instead of sampled.
var (
	c18TableKinds   = []string{"valid", "unreadable:" + simrt.FaultEIO, "unreadable:" + simrt.FaultEISDIR, "unreadable:" + simrt.FaultVanished, "unreadable:" + simrt.FaultEACCES, "torn-boundary", "torn-inside", "empty", "dsl-violation", "bad-import"}
	c18TableFailOns = []string{"", "dsl", "import", "all", "dsl,import", "import,all"}
)

// c18Layouts: one glob; exact patterns in order; reversed; a pattern matching nothing appended; the same put first.
const c18Layouts = 5

// C18TableSize is the number of scenarios of the enumerated policy table.
func C18TableSize() int {
	k := len(c18TableKinds)
	return (k + k*k) * len(c18TableFailOns) * 2 * c18Layouts
}

func c18TableFile(dir string, i int, kind string) ruleFileSpec {
	sp := ruleFileSpec{Path: fmt.Sprintf("%sa-rules%d.go", dir, i), Kind: kind}
	if strings.HasPrefix(kind, "unreadable:") {
		sp.Kind, sp.Fault = "unreadable", strings.TrimPrefix(kind, "unreadable:")
	}
	sp.Groups = []model.RuleGroup{
		{Name: fmt.Sprintf("f%dg0", i), Hit: fmt.Sprintf("hit f%dg0", i)},
		{Name: fmt.Sprintf("f%dg1", i), Hit: fmt.Sprintf("hit f%dg1", i), Tags: []string{"style"}},
	}
	if sp.Kind == "torn-boundary" {
		sp.Keep = 1
	}
	return sp
}

func (w *Worker) genC18Table(rc *simapi.RunConfig) {
	rc.Kind = "rulefs"
	rc.Visits = []simapi.Visit{{Pkg: probePkg, Files: []int{0}}}
	dir := fmt.Sprintf("%st%d/", simrt.FSPrefix, rc.Index)
	i := rc.Index
	layout := i % c18Layouts
	i /= c18Layouts
	legacy := i%2 == 1
	i /= 2
	failOn := c18TableFailOns[i%len(c18TableFailOns)]
	i /= len(c18TableFailOns)
	k := len(c18TableKinds)
	ex := c18Extra{Builds: 1}
	if i < k {
		ex.Specs = []ruleFileSpec{c18TableFile(dir, 0, c18TableKinds[i])}
	} else {
		i -= k
		ex.Specs = []ruleFileSpec{c18TableFile(dir, 0, c18TableKinds[i/k]), c18TableFile(dir, 1, c18TableKinds[i%k])}
	}
	var pats []string
	switch {
	case layout == 0 || len(ex.Specs) == 1 && layout == 1:
		pats = []string{dir + "a-*.go"}
	case layout == 1:
		pats = []string{ex.Specs[0].Path, ex.Specs[1].Path}
	case layout == 2:
		for j := len(ex.Specs) - 1; j >= 0; j-- {
			pats = append(pats, ex.Specs[j].Path)
		}
	case layout == 3:
		pats = []string{dir + "a-*.go", dir + "zz-*.go"}
	default:
		pats = []string{dir + "zz-*.go", dir + "a-*.go"}
	}
	ex.RulesArg = strings.Join(pats, ",")
	sc := &ex.Scenario
	sc.Patterns, sc.FailOn, sc.FailOnError, sc.Enable = pats, failOn, legacy, "<all>"
	ex.Rebuild()
	rc.Extra, _ = json.Marshal(ex)
}

func (w *Worker) genC18(rc *simapi.RunConfig) {
	if rc.Index < C18TableSize() {
		w.genC18Table(rc)
		return
	}
	r := simrt.NewRand(rc.RunSeed, "fault")
	rc.Kind = "rulefs"
	rc.Visits = []simapi.Visit{{Pkg: probePkg, Files: []int{0}}}
	dir := fmt.Sprintf("%sr%d/", simrt.FSPrefix, rc.Index)
	ex := c18Extra{Builds: 1}
	if r.Intn(8) == 0 {
		ex.Builds = 2
	}
	faulty := rc.Index%2 == 1 // fault-free and fault-injecting configurations are generated (and reported) separately
	nfiles := 1 + r.Intn(3)
	if r.Intn(6) == 0 {
		nfiles = 4
	}
	allTags := []string{"style", "diagnostic", "experimental", "perf"}
	prefixes := []string{"a-", "a-", "b-", "c-"}
	var groupNames []string
	for i := 0; i < nfiles; i++ {
		sp := ruleFileSpec{Path: fmt.Sprintf("%s%srules%d.go", dir, prefixes[i], i), Kind: "valid"}
		ng := 1 + r.Intn(4)
		for j := 0; j < ng; j++ {
			g := model.RuleGroup{Name: fmt.Sprintf("f%dg%d", i, j), Hit: fmt.Sprintf("hit f%dg%d", i, j)}
			for _, t := range allTags {
				if r.Intn(4) == 0 {
					g.Tags = append(g.Tags, t)
				}
			}
			sp.Groups = append(sp.Groups, g)
			groupNames = append(groupNames, g.Name)
		}
		if faulty && r.Intn(2) == 0 {
			kinds := []string{"unreadable", "torn-boundary", "torn-inside", "empty", "dsl-violation", "bad-import"}
			sp.Kind = kinds[r.Intn(len(kinds))]
			switch sp.Kind {
			case "unreadable":
				fs := []string{simrt.FaultEIO, simrt.FaultEISDIR, simrt.FaultVanished, simrt.FaultEACCES}
				sp.Fault = fs[r.Intn(len(fs))]
			case "torn-boundary":
				sp.Keep = r.Intn(len(sp.Groups)) // 0..ng-1 groups survive
			}
		}
		ex.Specs = append(ex.Specs, sp)
	}
	if faulty {
		any := false
		for _, sp := range ex.Specs {
			if sp.Kind != "valid" {
				any = true
			}
		}
		if !any {
			ex.Specs[0].Kind = "torn-inside"
		}
	}
	// patterns: exact paths and globs over a partition of the directory (no overlap)
	var pats []string
	used := map[string]bool{}
	for _, sp := range ex.Specs {
		base := strings.TrimPrefix(sp.Path, dir)
		pre := base[:2]
		if used[pre] {
			continue
		}
		used[pre] = true
		if r.Intn(2) == 0 || pre == "a-" {
			pats = append(pats, dir+pre+"*.go")
		} else {
			pats = append(pats, sp.Path)
		}
	}
	if r.Intn(3) == 0 { // order of patterns
		for i, j := 0, len(pats)-1; i < j; i, j = i+1, j-1 {
			pats[i], pats[j] = pats[j], pats[i]
		}
	}
	if faulty && r.Intn(7) == 0 {
		pats = append(pats, dir+"zz-*.go") // matches nothing
		if r.Intn(2) == 0 {
			pats[0], pats[len(pats)-1] = pats[len(pats)-1], pats[0]
		}
	}
	seps := []string{",", ", ", " ,", " , "}
	ex.RulesArg = strings.Join(pats, seps[r.Intn(len(seps))])
	sc := &ex.Scenario
	sc.Patterns = pats
	// failOn
	failOns := []string{"", "", "dsl", "import", "all", "dsl,import", "import,dsl", ",dsl", "all,", "dsl,,import"}
	sc.FailOn = failOns[r.Intn(len(failOns))]
	if faulty && r.Intn(12) == 0 {
		bad := []string{"DSL", "imports", "none", "dsl;import", "true"}
		sc.FailOn = bad[r.Intn(len(bad))]
		if r.Intn(2) == 0 {
			sc.FailOn = "dsl," + sc.FailOn
		}
	}
	sc.FailOnError = r.Intn(4) == 0
	// enable / disable
	sc.Enable = "<all>"
	pick := func() string {
		switch r.Intn(5) {
		case 0:
			return "#" + allTags[r.Intn(len(allTags))]
		case 1:
			return "nosuchgroup"
		default:
			return groupNames[r.Intn(len(groupNames))]
		}
	}
	if r.Intn(2) == 0 {
		var es []string
		for i := 0; i < 1+r.Intn(4); i++ {
			es = append(es, pick())
		}
		if r.Intn(3) == 0 {
			es = append(es, "#experimental")
		}
		sc.Enable = strings.Join(es, seps[r.Intn(len(seps))])
	}
	if r.Intn(2) == 0 {
		var ds []string
		for i := 0; i < 1+r.Intn(3); i++ {
			ds = append(ds, pick())
		}
		sc.Disable = strings.Join(ds, seps[r.Intn(len(seps))])
	}
	// a disabled group is never compiled, so its unloadable import cannot
	// manifest: the offending group of a bad-import file is always enabled
	for _, sp := range ex.Specs {
		if sp.Kind == "bad-import" && sc.Enable != "<all>" {
			sc.Enable += "," + sp.Groups[0].Name + "imp"
		}
	}
	ex.Rebuild()
	rc.Extra, _ = json.Marshal(ex)
}

func (w *Worker) runC18(rc *simapi.RunConfig) *simapi.RunResult {
	res := &simapi.RunResult{Stats: map[string]int64{}, Probes: map[string]int64{}, Faults: map[string]int64{}}
	var ex c18Extra
	if err := json.Unmarshal(rc.Extra, &ex); err != nil {
		res.Verdict = "harness-error"
		res.Notes = append(res.Notes, err.Error())
		return res
	}
	want := model.RulePolicy(&ex.Scenario)
	info := w.infoBy["ruleguard"]
	cp := w.corpus.Pkgs[probePkg]
	if info == nil || cp == nil {
		res.Verdict = "harness-error"
		res.Notes = append(res.Notes, "ruleguard checker or probe package missing")
		return res
	}
	fs := &simrt.SimFS{Files: map[string]*simrt.SimFile{}}
	for i := range ex.Specs {
		data, ft := renderRuleFile(&ex.Specs[i])
		sf := &simrt.SimFile{Data: data}
		for b := 0; b < ex.Builds; b++ {
			sf.Faults = append(sf.Faults, ft)
		}
		fs.Files[ex.Specs[i].Path] = sf
	}
	simrt.Mount(fs)
	defer simrt.Mount(nil)
	simrt.SetMapPolicy(simrt.MapCanonical, 0)
	w.restoreParams()
	defer w.restoreParams()
	info.Params["rules"].Value = ex.RulesArg
	info.Params["failOn"].Value = ex.Scenario.FailOn
	info.Params["failOnError"].Value = ex.Scenario.FailOnError
	info.Params["enable"].Value = ex.Scenario.Enable
	info.Params["disable"].Value = ex.Scenario.Disable
	add := func(class, detail string) {
		res.Violations = append(res.Violations, simapi.Violation{Class: class, Identity: class + ":" + scenarioShape(&ex), Detail: detail + "\nscenario: " + scenarioText(&ex)})
	}
	for b := 0; b < ex.Builds && len(res.Violations) == 0; b++ {
		w.sink.records = nil
		ctx := linter.NewContext(w.corpus.Fset, w.corpus.Sizes)
		var c *linter.Checker
		var err error
		func() {
			defer func() {
				if r := recover(); r != nil {
					err = fmt.Errorf("PANIC: %v", r)
				}
			}()
			c, err = linter.NewChecker(ctx, info)
		}()
		var logs []string
		for _, r := range w.sink.records {
			logs = append(logs, r.Text)
		}
		res.Stats["constructions"]++
		if os.Getenv("GCSIM_DEBUG") != "" {
			res.Notes = append(res.Notes, fmt.Sprintf("build %d: err=%v logs=%q want=%+v", b, err, logs, want))
		}
		if err != nil && strings.HasPrefix(err.Error(), "PANIC") {
			add("constructor-panic", err.Error())
			break
		}
		switch want.Kind {
		case "abstain":
			res.Stats["model_abstained"]++
			continue
		case "error":
			if err == nil {
				add("init-should-fail", fmt.Sprintf("the policy demands an initialisation error (%s) but the checker was constructed", want.Why))
				continue
			}
			for _, n := range want.ErrNames {
				if !strings.Contains(err.Error(), n) {
					add("error-does-not-name-problem", fmt.Sprintf("init error %q does not name %q (%s)", err.Error(), n, want.Why))
				}
			}
			res.Stats["init_errors_expected_and_seen"]++
			continue
		}
		// want ok
		if err != nil {
			add("init-should-succeed", fmt.Sprintf("the policy demands that failing files are skipped and the rest applies, but initialisation failed: %v", err))
			continue
		}
		ctx.SetPackageInfo(cp.Pkg.TypesInfo, cp.Pkg.Types)
		ctx.SetFileInfo(cp.FileNames[0], cp.Files[0])
		ws, pan := safeCheck(c, cp.Files[0])
		if pan != "" {
			add("walk-panic", pan)
			continue
		}
		var got []string
		for _, wn := range ws {
			got = append(got, wn.Text)
		}
		sort.Strings(got)
		oa, ob := multisetDiff(got, want.Hits)
		if len(oa)+len(ob) > 0 {
			add("group-set-differs", fmt.Sprintf("diagnostics differ from the policy: unexpected [%s]; missing [%s]", joinShort(oa, 4), joinShort(ob, 4)))
		}
		for _, sk := range want.Skipped {
			found := false
			for _, l := range logs {
				if strings.Contains(l, "skip") && strings.Contains(l, sk) {
					found = true
				}
			}
			if !found {
				add("skip-not-logged", fmt.Sprintf("file %s was skipped without a log line naming it; log: %q", sk, short(strings.Join(logs, ""), 400)))
			}
		}
		res.Stats["diagnostics"] += int64(len(got))
		res.Stats["files_skipped"] += int64(len(want.Skipped))
		if len(want.Skipped) > 0 && len(want.Skipped) == len(ex.Specs) {
			res.Probes["all_rule_files_skipped"]++
		}
	}
	reads, globs, misses, fired := simrt.FSCounters()
	res.Stats["disk_reads"] = int64(reads)
	res.Stats["disk_globs"] = int64(globs)
	if misses > 0 {
		res.Probes["glob_without_match"] += int64(misses)
	}
	for _, f := range fired {
		res.Faults[f.Kind]++
		if f.Kind == simrt.FaultVanished {
			res.Probes["glob_matched_file_then_read_failed"]++
		}
	}
	for _, sp := range ex.Specs {
		switch sp.Kind {
		case "dsl-violation", "bad-import":
			res.Faults["content:"+sp.Kind]++
		}
	}
	if want.Kind == "error" && want.Why == "unknown failOn value" {
		res.Faults["config:unknown-failOn"]++
	}
	res.NonTrivial = len(res.Faults) > 0 || want.Kind == "error" || ex.Scenario.Enable != "<all>" || ex.Scenario.Disable != ""
	res.DecisionID = hashStrings(scenarioText(&ex))
	res.Digest = hashStrings(scenarioText(&ex), fmt.Sprint(res.Stats["diagnostics"], res.Stats["init_errors_expected_and_seen"], len(res.Violations)))
	return res
}

// scenarioShape is the identity of a finding: the multiset of file kinds, the
// effective failOn and whether group filters are in play - not the run index.
func scenarioShape(ex *c18Extra) string {
	var ks []string
	for _, sp := range ex.Specs {
		k := sp.Kind
		if k == "unreadable" {
			k += "/" + sp.Fault
		}
		ks = append(ks, k)
	}
	sort.Strings(ks)
	fo := ex.Scenario.FailOn
	if fo == "" && ex.Scenario.FailOnError {
		fo = "all(legacy)"
	}
	return fmt.Sprintf("files=[%s] failOn=%q", strings.Join(ks, ","), fo)
}

func scenarioText(ex *c18Extra) string {
	var fs []string
	for _, sp := range ex.Specs {
		k := sp.Kind
		if sp.Fault != "" {
			k += "/" + sp.Fault
		}
		if sp.Kind == "torn-boundary" {
			k += fmt.Sprintf("/keep%d", sp.Keep)
		}
		var gs []string
		for _, g := range sp.Groups {
			gs = append(gs, g.Name+fmt.Sprint(g.Tags))
		}
		fs = append(fs, fmt.Sprintf("%s{%s: %s}", baseName(sp.Path), k, strings.Join(gs, " ")))
	}
	return fmt.Sprintf("rules=%q failOn=%q failOnError=%v enable=%q disable=%q builds=%d files=%s",
		ex.RulesArg, ex.Scenario.FailOn, ex.Scenario.FailOnError, ex.Scenario.Enable, ex.Scenario.Disable, ex.Builds, strings.Join(fs, "; "))
}
