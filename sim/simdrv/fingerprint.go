package simdrv

import (
	"fmt"
	"go/ast"
	"go/token"
	"go/types"
	"reflect"
	"sort"

	"github.com/go-critic/go-critic/linter"
	"github.com/go-toolsmith/astcast"
)

// Fingerprints of everything a checker is told is read-only.

type hasher struct {
	h    uint64
	seen map[uintptr]int
}

func newHasher() *hasher { return &hasher{h: 14695981039346656037, seen: map[uintptr]int{}} }

func (x *hasher) u64(v uint64) {
	x.h = (x.h ^ v) * 1099511628211
	x.h ^= x.h >> 29
}

func (x *hasher) str(s string) {
	x.u64(uint64(len(s)))
	for i := 0; i < len(s); i++ {
		x.h = (x.h ^ uint64(s[i])) * 1099511628211
	}
}

var (
	objectType = reflect.TypeOf((*ast.Object)(nil))
	scopeType  = reflect.TypeOf((*ast.Scope)(nil))
)

// value hashes an AST value structurally: node kinds, every position and
// token field, identifier names, literal values, comment texts, slice lengths.
func (x *hasher) value(v reflect.Value) {
	switch v.Kind() {
	case reflect.Ptr:
		if v.IsNil() {
			x.u64(0xdead)
			return
		}
		switch v.Type() {
		case objectType:
			o := v.Interface().(*ast.Object)
			x.u64(uint64(o.Kind))
			x.str(o.Name)
			return
		case scopeType:
			x.u64(0x5c09e)
			return
		}
		p := v.Pointer()
		if id, ok := x.seen[p]; ok {
			x.u64(0xbac0 + uint64(id))
			return
		}
		x.seen[p] = len(x.seen)
		x.str(v.Type().Elem().Name())
		x.value(v.Elem())
	case reflect.Interface:
		if v.IsNil() {
			x.u64(0xdead)
			return
		}
		x.value(v.Elem())
	case reflect.Struct:
		for i := 0; i < v.NumField(); i++ {
			x.value(v.Field(i))
		}
	case reflect.Slice:
		x.u64(uint64(v.Len()) + 0x51ce)
		for i := 0; i < v.Len(); i++ {
			x.value(v.Index(i))
		}
	case reflect.String:
		x.str(v.String())
	case reflect.Bool:
		if v.Bool() {
			x.u64(1)
		} else {
			x.u64(2)
		}
	case reflect.Int, reflect.Int8, reflect.Int16, reflect.Int32, reflect.Int64:
		x.u64(uint64(v.Int()))
	case reflect.Uint, reflect.Uint8, reflect.Uint16, reflect.Uint32, reflect.Uint64, reflect.Uintptr:
		x.u64(v.Uint())
	case reflect.Map:
		x.u64(uint64(v.Len()) + 0x3a9)
	default:
		x.u64(uint64(v.Kind()))
	}
}

// FileFP is the fingerprint of one file: the whole, plus one hash per
// top-level declaration and one for the comment list (to say what changed).
type FileFP struct {
	All      uint64
	Decls    []uint64
	Comments uint64
}

func fpFile(f *ast.File) FileFP {
	var fp FileFP
	for _, d := range f.Decls {
		h := newHasher()
		h.value(reflect.ValueOf(d))
		fp.Decls = append(fp.Decls, h.h)
	}
	hc := newHasher()
	hc.value(reflect.ValueOf(f.Comments))
	fp.Comments = hc.h
	h := newHasher()
	h.value(reflect.ValueOf(f))
	fp.All = h.h
	return fp
}

func declName(d ast.Decl) string {
	switch x := d.(type) {
	case *ast.FuncDecl:
		return "func " + x.Name.Name
	case *ast.GenDecl:
		return x.Tok.String() + " declaration"
	}
	return "declaration"
}

// diffFile says what differs between two fingerprints of the same file.
func diffFile(f *ast.File, fset *token.FileSet, a, b FileFP) string {
	if a.All == b.All {
		return ""
	}
	if len(a.Decls) != len(b.Decls) {
		return fmt.Sprintf("number of top-level declarations changed %d -> %d", len(a.Decls), len(b.Decls))
	}
	for i := range a.Decls {
		if a.Decls[i] != b.Decls[i] && i < len(f.Decls) {
			return fmt.Sprintf("%s (line %d) was modified", declName(f.Decls[i]), fset.Position(f.Decls[i].Pos()).Line)
		}
	}
	if a.Comments != b.Comments {
		return "the comment list was modified"
	}
	return "file-level fields were modified"
}

func ptrOf(v any) uint64 {
	if v == nil {
		return 0
	}
	rv := reflect.ValueOf(v)
	switch rv.Kind() {
	case reflect.Ptr, reflect.Map, reflect.Slice, reflect.Func, reflect.Chan, reflect.UnsafePointer:
		return uint64(rv.Pointer())
	}
	return 0
}

func mixPair(a, b uint64) uint64 {
	z := a*0x9e3779b97f4a7c15 ^ (b + 0x7f4a7c15) ^ (a >> 31)
	z = (z ^ (z >> 30)) * 0xbf58476d1ce4e5b9
	z = (z ^ (z >> 27)) * 0x94d049bb133111eb
	return z ^ (z >> 31)
}

// fpInfo: length of each map and an order-independent digest of
// (key identity, value identity, constant value).
func fpInfo(info *types.Info) uint64 {
	if info == nil {
		return 0
	}
	var acc uint64
	add := func(tag uint64, n int, sum uint64) { acc = mixPair(acc^tag, uint64(n)) + sum }
	{
		var s uint64
		for k, v := range info.Types {
			e := mixPair(ptrOf(k), ptrOf(v.Type))
			if v.Value != nil {
				h := newHasher()
				h.str(v.Value.ExactString())
				e = mixPair(e, h.h)
			}
			s += e
		}
		add(1, len(info.Types), s)
	}
	{
		var s uint64
		for k, v := range info.Defs {
			s += mixPair(ptrOf(k), ptrOf(v))
		}
		add(2, len(info.Defs), s)
	}
	{
		var s uint64
		for k, v := range info.Uses {
			s += mixPair(ptrOf(k), ptrOf(v))
		}
		add(3, len(info.Uses), s)
	}
	{
		var s uint64
		for k, v := range info.Implicits {
			s += mixPair(ptrOf(k), ptrOf(v))
		}
		add(4, len(info.Implicits), s)
	}
	{
		var s uint64
		for k, v := range info.Selections {
			s += mixPair(ptrOf(k), ptrOf(v))
		}
		add(5, len(info.Selections), s)
	}
	{
		var s uint64
		for k, v := range info.Scopes {
			s += mixPair(ptrOf(k), ptrOf(v))
		}
		add(6, len(info.Scopes), s)
	}
	{
		var s uint64
		for k, v := range info.Instances {
			s += mixPair(ptrOf(k), ptrOf(v.Type))
		}
		add(7, len(info.Instances), s)
	}
	add(8, len(info.InitOrder), 0)
	add(9, len(info.FileVersions), 0)
	return acc
}

// fpContext hashes the fields of the shared context.
func fpContext(ctx *linter.Context) uint64 {
	h := newHasher()
	h.u64(ptrOf(ctx.TypesInfo))
	h.u64(ptrOf(ctx.SizesInfo))
	h.value(reflect.ValueOf(ctx.GoVersion))
	h.u64(ptrOf(ctx.FileSet))
	if ctx.FileSet != nil {
		h.u64(uint64(ctx.FileSet.Base()))
	}
	h.u64(ptrOf(ctx.Pkg))
	h.str(ctx.Filename)
	if ctx.Require.PkgObjects {
		h.u64(11)
	}
	if ctx.Require.PkgRenames {
		h.u64(13)
	}
	var s uint64
	for k, v := range ctx.PkgObjects {
		hh := newHasher()
		hh.str(v)
		s += mixPair(ptrOf(k), hh.h)
	}
	h.u64(uint64(len(ctx.PkgObjects)))
	h.u64(s)
	s = 0
	for k, v := range ctx.PkgRenames {
		hh := newHasher()
		hh.str(k)
		hh.str(v)
		s += hh.h
	}
	h.u64(uint64(len(ctx.PkgRenames)))
	h.u64(s)
	return h.h
}

// fpRegistry hashes the registered checker metadata and parameter values.
func fpRegistry() uint64 {
	h := newHasher()
	for _, info := range linter.GetCheckersInfo() {
		h.str(info.Name)
		for _, t := range info.Tags {
			h.str(t)
		}
		h.u64(uint64(len(info.Tags)))
		h.str(info.Summary)
		h.str(info.Details)
		h.str(info.Before)
		h.str(info.After)
		h.str(info.Note)
		if info.EmbeddedRuleguard {
			h.u64(1)
		}
		h.u64(ptrOf(info.Collection))
		var ks []string
		for k := range info.Params {
			ks = append(ks, k)
		}
		sort.Strings(ks)
		for _, k := range ks {
			h.str(k)
			h.str(fmt.Sprintf("%T=%v", info.Params[k].Value, info.Params[k].Value))
			h.str(info.Params[k].Usage)
		}
	}
	return h.h
}

var sentinels = []ast.Node{
	astcast.NilArrayType, astcast.NilBadExpr, astcast.NilBasicLit, astcast.NilBinaryExpr, astcast.NilCallExpr,
	astcast.NilChanType, astcast.NilCompositeLit, astcast.NilEllipsis, astcast.NilFuncLit, astcast.NilFuncType,
	astcast.NilIdent, astcast.NilIndexExpr, astcast.NilInterfaceType, astcast.NilKeyValueExpr, astcast.NilMapType,
	astcast.NilParenExpr, astcast.NilSelectorExpr, astcast.NilSliceExpr, astcast.NilStarExpr, astcast.NilStructType,
	astcast.NilTypeAssertExpr, astcast.NilUnaryExpr, astcast.NilAssignStmt, astcast.NilBadStmt, astcast.NilBlockStmt,
	astcast.NilBranchStmt, astcast.NilCaseClause, astcast.NilCommClause, astcast.NilDeclStmt, astcast.NilDeferStmt,
	astcast.NilEmptyStmt, astcast.NilExprStmt, astcast.NilForStmt, astcast.NilGoStmt, astcast.NilIfStmt,
	astcast.NilIncDecStmt, astcast.NilLabeledStmt, astcast.NilRangeStmt, astcast.NilReturnStmt, astcast.NilSelectStmt,
	astcast.NilSendStmt, astcast.NilSwitchStmt, astcast.NilTypeSwitchStmt, astcast.NilComment, astcast.NilCommentGroup,
	astcast.NilFieldList, astcast.NilFile,
}

// fpSentinels hashes the process-wide "nil object" AST nodes handed out by
// astcast; they are shared by every checker and must stay zero values.
func fpSentinels() uint64 {
	h := newHasher()
	for _, n := range sentinels {
		h.value(reflect.ValueOf(n))
	}
	return h.h
}
