package simdrv

import (
	"encoding/json"
	"fmt"
	"os"
	"sort"
	"strings"

	"golang.org/x/tools/go/packages"
	"verif.local/gcsim/simrt"

	"github.com/go-critic/go-critic/linter"
)

// Reference model: the diagnostics of a FRESH checker on a FRESH context over
// an independently loaded copy of the package, run alone, serially, with the
// simulator's scheduler off and the canonical map order. Same interface as the
// system under test, nothing long-lived inside.

type RefEntry struct {
	Diags []Diag   `json:"diags"`
	Panic string   `json:"panic,omitempty"`
	Err   string   `json:"err,omitempty"`   // constructor error
	Other []string `json:"other,omitempty"` // front-end level: printed records that are not diagnostics
	// Atomic: this checker, run alone over this file, passed at least one atomic
	// operation of the instrumented packages (it touches lock-free shared code)
	Atomic bool `json:"atomic,omitempty"`
}

type RefTable struct {
	Entries map[string]*RefEntry `json:"entries"`
	// Steps[run index] = serial step count of that run's workload (calibration
	// for change points and the step budget), measured by the plain build.
	Steps    map[string]int64 `json:"steps,omitempty"`
	computed int
}

func newRefTable() *RefTable {
	return &RefTable{Entries: map[string]*RefEntry{}, Steps: map[string]int64{}}
}

func (t *RefTable) load(path string) error {
	b, err := os.ReadFile(path)
	if err != nil {
		return err
	}
	return json.Unmarshal(b, t)
}

func (t *RefTable) save(path string) error {
	b, err := json.Marshal(t)
	if err != nil {
		return err
	}
	return os.WriteFile(path, b, 0o644)
}

// paramDigest identifies the parameter values a checker would be built with.
func paramDigest(info *linter.CheckerInfo, over map[string]any) string {
	if len(info.Params) == 0 {
		return ""
	}
	var ks []string
	for k := range info.Params {
		ks = append(ks, k)
	}
	sort.Strings(ks)
	s := ""
	for _, k := range ks {
		v := info.Params[k].Value
		if ov, ok := over[k]; ok {
			v = ov
		}
		s += fmt.Sprintf("%s=%v;", k, v)
	}
	return s
}

// refDiags returns Ref(checker, params, goVersion, pkg, file).
func (w *Worker) refDiags(checker string, params map[string]any, goVersion, pkg string, file int) *RefEntry {
	return w.refDiagsPerm(checker, params, goVersion, pkg, file, 0)
}

// refDiagsPerm is refDiags for a file with permuted declaration order.
func (w *Worker) refDiagsPerm(checker string, params map[string]any, goVersion, pkg string, file int, declSeed uint64) *RefEntry {
	info := w.infoBy[checker]
	if info == nil {
		return &RefEntry{Err: "unknown checker"}
	}
	key := checker + "|" + paramDigest(info, params) + "|" + goVersion + "|" + pkg + "|" + fmt.Sprint(file)
	if declSeed != 0 {
		key += fmt.Sprintf("|perm%d", declSeed)
	}
	if e, ok := w.refTable.Entries[key]; ok {
		return e
	}
	e := w.computeRef(info, params, goVersion, pkg, file, declSeed)
	w.refTable.Entries[key] = e
	w.refTable.computed++
	return e
}

func (w *Worker) computeRef(info *linter.CheckerInfo, params map[string]any, goVersion, pkg string, file int, declSeed uint64) (e *RefEntry) {
	e = &RefEntry{}
	ref := w.refCorpus()
	cp := ref.Pkgs[pkg]
	if cp == nil {
		e.Err = "package not in reference corpus"
		return
	}
	// parameter values: registry defaults overridden by the run's values,
	// restored afterwards
	saved := map[string]any{}
	for k, p := range info.Params {
		saved[k] = p.Value
		p.Value = w.defaults[info.Name][k]
		if v, ok := params[k]; ok {
			p.Value = v
		}
	}
	defer func() {
		for k, p := range info.Params {
			p.Value = saved[k]
		}
	}()
	defer func() {
		if r := recover(); r != nil {
			e.Panic = fmt.Sprint(r)
		}
	}()
	// The reference run executes checker code too: process-wide shared state
	// (astcast sentinels, the registry) must come out of it unchanged, else
	// every later comparison in this process is made against polluted state.
	sent0, reg0 := fpSentinels(), fpRegistry()
	defer func() {
		if fpSentinels() != sent0 {
			w.refDirty = append(w.refDirty, [2]string{"sentinel-mutated", info.Name})
		}
		if fpRegistry() != reg0 {
			w.refDirty = append(w.refDirty, [2]string{"registry-mutated", info.Name})
		}
	}()
	ctx := linter.NewContext(ref.Fset, ref.Sizes)
	ctx.SetGoVersion(goVersion)
	c, err := linter.NewChecker(ctx, info)
	if err != nil {
		e.Err = err.Error()
		return
	}
	ctx.SetPackageInfo(cp.Pkg.TypesInfo, cp.Pkg.Types)
	f := cp.PermutedFile(file, declSeed)
	ctx.SetFileInfo(cp.FileNames[file], f)
	for _, wn := range c.Check(f) {
		e.Diags = append(e.Diags, diagFromWarning(ref.Fset, pkg, info.Name, wn))
	}
	return
}

// twinOrder is the file-registration order of the twin (reference) corpus: a
// function of VERIF_SEED and the file path only, so every process of a check
// builds the same twin whatever subset of the corpus it loads.
func (w *Worker) twinOrder() FsetOrder {
	return FsetOrder{Policy: 2, Seed: w.job.Seed ^ 0x7477696e}
}

// refDiagsCLI is the reference of the front-end level engines: what a FRESH
// command-line program (real flag parsing, parameter assignment, checker
// construction, checkPackage/checkFile) prints for this one file when it is the
// first and only thing it analyses - the left-hand side of the property
// statement, obtained through the same front-end as the execution it is
// compared with, so that whatever the front-end derives per package (for
// instance from the package's module) is part of both.
func (w *Worker) refDiagsCLI(base *Workload, checker string, pkg string, file int, declSeed uint64) *RefEntry {
	info := w.infoBy[checker]
	if info == nil {
		return &RefEntry{Err: "unknown checker"}
	}
	params, goVersion := base.Params[checker], base.GoVersion
	key := "cli|" + checker + "|" + paramDigest(info, params) + "|" + goVersion + "|" + pkg + "|" + fmt.Sprint(file)
	if base.SkipGenerated {
		key += "|skipgen"
	}
	if declSeed != 0 {
		key += fmt.Sprintf("|perm%d", declSeed)
	}
	if e, ok := w.refTable.Entries[key]; ok {
		return e
	}
	e := w.computeRefCLI(info, params, goVersion, base.SkipGenerated, pkg, file, declSeed)
	w.refTable.Entries[key] = e
	w.refTable.computed++
	return e
}

func (w *Worker) computeRefCLI(info *linter.CheckerInfo, params map[string]any, goVersion string, skipGen bool, pkg string, file int, declSeed uint64) (e *RefEntry) {
	e = &RefEntry{}
	ref := w.refCorpus()
	cp := ref.Pkgs[pkg]
	if cp == nil {
		e.Err = "package not in reference corpus"
		return
	}
	wl := &Workload{Checkers: []string{info.Name}, Params: map[string]map[string]any{}, Concurrency: 1, GoVersion: goVersion, SkipGenerated: skipGen}
	if len(params) > 0 {
		wl.Params[info.Name] = params
	}
	savedRecords, savedVisit := w.sink.records, w.sink.visit
	w.sink.records, w.sink.visit = nil, 0
	w.restoreParams()
	sent0, reg0 := fpSentinels(), fpRegistry()
	defer func() {
		if r := recover(); r != nil {
			e.Panic = fmt.Sprint(r)
		}
		recs := w.sink.records
		w.sink.records, w.sink.visit = savedRecords, savedVisit
		w.restoreParams()
		if fpSentinels() != sent0 {
			w.refDirty = append(w.refDirty, [2]string{"sentinel-mutated", info.Name})
		}
		if fpRegistry() != reg0 {
			w.refDirty = append(w.refDirty, [2]string{"registry-mutated", info.Name})
		}
		for _, r := range recs {
			if d, ok := parseCLIRecord(pkg, r.Text); ok {
				e.Diags = append(e.Diags, d)
			} else {
				e.Other = append(e.Other, r.Text)
			}
		}
	}()
	atomic0 := simrt.AtomicSeen()
	defer func() { e.Atomic = simrt.AtomicSeen() > atomic0 }()
	fe := w.runFrontEnd(wl.Args(), ref, []*packages.Package{cp.ViewPermuted([]int{file}, declSeed)}, nil, nil)
	switch {
	case fe.Fatal != "":
		e.Err = fe.Fatal
		if n := len(w.sink.records); n > 0 && strings.TrimRight(w.sink.records[n-1].Text, "\n") == fe.Fatal {
			w.sink.records = w.sink.records[:n-1]
		}
	case fe.Err != "":
		e.Err = fe.Err
	case fe.LoaderTypeErr != "":
		e.Err = "loader type " + fe.LoaderTypeErr
	}
	return
}

// refCorpus loads the reference corpus on first use (an independent second
// parse and type-check of the same packages, in its own file set).
func (w *Worker) refCorpus() *Corpus {
	if w.ref == nil {
		c, err := LoadCorpus(w.job.RepoDir, w.need, extraCorpus(), w.twinOrder())
		if err != nil {
			panic("reference corpus: " + err.Error())
		}
		w.ref = c
	}
	return w.ref
}
