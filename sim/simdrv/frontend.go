package simdrv

import (
	"encoding/json"
	"fmt"
	"go/token"
	"os"
	"path/filepath"
	"runtime"
	"sort"
	"strings"
	"time"

	"golang.org/x/tools/go/packages"
	"verif.local/gcsim/simrt"
)

// findSites looks up the yield sites of the front-end functions the driver
// wants to be told about, in the site table the instrumenter wrote next to the
// worker binary.
func (w *Worker) findSites() {
	w.siteRunCheckers, w.siteCheckPackage = -1, -1
	exe, err := os.Executable()
	if err != nil {
		return
	}
	b, err := os.ReadFile(filepath.Join(filepath.Dir(exe), "sites.json"))
	if err != nil {
		return
	}
	var sites []struct {
		ID   int32  `json:"id"`
		Kind string `json:"kind"`
		Pos  string `json:"pos"`
		Func string `json:"func"`
	}
	if json.Unmarshal(b, &sites) != nil {
		return
	}
	// The hooks sit in the library, not in the front-end: every front-end has to call
	// linter.(*Context).SetPackageInfo once per package before it analyses anything of it,
	// whatever its own functions are called.
	for _, s := range sites {
		if s.Kind != "yield" || !strings.HasPrefix(s.Pos, "linter/") {
			continue
		}
		switch s.Func {
		case "*Context.SetPackageInfo":
			w.siteCheckPackage = s.ID
		}
	}
}

// feOutcome is how one execution of the front-end's entry point ended.
type feOutcome struct {
	Exit          int    // exit status the process would have ended with
	Fatal         string // message of a log.Fatal* call (initialisation or load error)
	Err           string // error returned by the entry point
	LoaderCalls   int
	Attributed    bool // records carry the index of the package visit that printed them
	LoaderTypeErr string
	Stragglers    int // goroutines of the program still alive 5 s after its entry point returned
}

// mirrorFiles gives dst the position table of the given files of src: same
// names, bases, sizes and line tables, so every token.Pos of the pre-loaded
// trees resolves in dst exactly as in src.
func mirrorFiles(dst, src *token.FileSet, pkgs []*packages.Package) error {
	seen := map[*token.File]bool{}
	var files []*token.File
	for _, p := range pkgs {
		for _, f := range p.Syntax {
			tf := src.File(f.FileStart)
			if tf == nil {
				tf = src.File(f.Package)
			}
			if tf != nil && !seen[tf] {
				seen[tf] = true
				files = append(files, tf)
			}
		}
	}
	sort.Slice(files, func(i, j int) bool { return files[i].Base() < files[j].Base() })
	for _, tf := range files {
		if tf.Base() < dst.Base() {
			return fmt.Errorf("file set of the front-end is not empty (base %d > %d)", dst.Base(), tf.Base())
		}
		nf := dst.AddFile(tf.Name(), tf.Base(), tf.Size())
		if !nf.SetLines(tf.Lines()) {
			return fmt.Errorf("cannot mirror the line table of %s", tf.Name())
		}
	}
	return nil
}

// runFrontEnd executes the real entry point of the check sub-command over the
// given pre-loaded packages (in this order). sched == nil leaves the simulator's
// scheduler off. The scheduler is switched on, and onInit called, when the program
// hands its first package to the library (configuration and checker construction
// are done, nothing has been analysed yet).
func (w *Worker) runFrontEnd(args []string, corpus *Corpus, pkgs []*packages.Package, sched *simrt.SchedConfig, onInit func()) (out feOutcome) {
	served := false
	serve := func(cfg *packages.Config) ([]*packages.Package, error) {
		out.LoaderCalls++
		if served {
			return nil, nil
		}
		served = true
		if cfg.Fset == nil {
			return nil, fmt.Errorf("gcsim: the front-end loads packages without a file set of its own")
		}
		if err := mirrorFiles(cfg.Fset, corpus.Fset, pkgs); err != nil {
			return nil, fmt.Errorf("gcsim: %v", err)
		}
		return pkgs, nil
	}
	simrt.LoaderHooks = []any{
		func(cfg *packages.Config, patterns []string) ([]*packages.Package, error) { return serve(cfg) },
		func(cfg *packages.Config, patterns ...string) ([]*packages.Package, error) { return serve(cfg) },
	}
	simrt.LoaderMismatch = func(t string) { out.LoaderTypeErr = t }
	simrt.ExitHook = func(code int, fatal string) {}
	simrt.ClearSiteHooks()
	started := false
	start := func() {
		if !started {
			started = true
			if sched != nil && !simrt.Active() {
				simrt.Start(sched)
			}
			if onInit != nil {
				onInit()
			}
		}
	}
	if w.siteCheckPackage >= 0 {
		out.Attributed = true
		simrt.OnSite(w.siteCheckPackage, func() {
			start()
			w.sink.visit++
		})
	} else {
		w.sink.visit = 0
	}
	if w.siteCheckPackage < 0 {
		start() // the library no longer has that function: simulate the whole entry point
	}
	goroutines0 := runtime.NumGoroutine()
	defer func() {
		simrt.LoaderHooks, simrt.ExitHook, simrt.LoaderMismatch = nil, nil, nil
		simrt.ClearSiteHooks()
		// The program's worker goroutines may still be unwinding when its entry point
		// returns (go-critic's workers run the rest of their deferred function after the
		// barrier opened). None of them may live into the next execution: a straggler of an
		// execution with the scheduler off that reaches a wrapped operation after the
		// scheduler was switched on for the NEXT execution would act as a task it is not.
		if !simrt.Active() {
			deadline := time.Now().Add(5 * time.Second)
			for runtime.NumGoroutine() > goroutines0 && time.Now().Before(deadline) {
				runtime.Gosched()
				time.Sleep(50 * time.Microsecond)
			}
			if n := runtime.NumGoroutine(); n > goroutines0 {
				out.Stragglers = n - goroutines0
			}
		}
	}()
	func() {
		defer func() {
			if r := recover(); r != nil {
				ep, ok := r.(simrt.ExitPanic)
				if !ok {
					panic(r)
				}
				out.Exit, out.Fatal = ep.Code, strings.TrimRight(ep.Fatal, "\n")
			}
		}()
		if err := w.hooks.Run(append(append([]string(nil), args...), "gcsim/pre-loaded")); err != nil {
			out.Err = err.Error()
			out.Exit = 1
		}
	}()
	return out
}
