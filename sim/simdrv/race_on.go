//go:build race

package simdrv

import "runtime"

const raceEnabled = true

func raceErrors() int { return runtime.RaceErrors() }
