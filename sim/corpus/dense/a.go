// Package dense: several diagnostics of ONE checker on one line, in one
// statement, and with byte-identical texts on different lines. Anything that
// collects, folds, sorts or de-duplicates the reports of a checker (by text,
// by line, by node) has something to get wrong here.
package dense

import (
	"bytes"
	"flag"
	"regexp"
	"strings"
)

func pick(a, b bool) bool { return a || b }

func mutate(x *int) int { *x++; return *x }

// identical texts on one line and again on other lines
func emptyChecks(s, t string) bool {
	a := pick(len(s) == 0, len(s) == 0)
	b := pick(len(t) == 0, len(s) == 0)
	c := len(s) == 0
	d := len(s) == 0 || len(t) != 0 || len(s) == 0
	return a && b && c && d
}

// several order-dependent calls in one return, twice with the same operands
func evalOrders() (int, int, int, int) {
	var a, b int
	if a > 1 {
		return a, b, mutate(&a), mutate(&b)
	}
	return mutate(&b), a, mutate(&a), b
}

func evalOrdersAgain() (int, int, int, int) {
	var a, b int
	return a, b, mutate(&a), mutate(&b)
}

// duplicated sub-expressions, several per line, same text on several lines
func dupSubs(x, y int, p, q bool) bool {
	r1 := x == x || y == y
	r2 := x == x && p
	r3 := (p && p) || (q && q) || x == x
	return r1 || r2 || r3
}

// simplifiable boolean expressions, nested, same shape repeated
func boolSimplify(a, b int, p bool) bool {
	r1 := !(a == b) || !(a != b)
	r2 := !(a == b)
	r3 := !!p || !(a == b)
	return r1 && r2 && r3
}

// assignments that could use an assignment operator, twice per line
func assignOps(x, y int) int {
	x = x + 1; y = y + 1
	x = x + 1
	x = x * 2; x = x * 2
	return x + y
}

// flag values dereferenced at once, two per declaration
var (
	verbose, debug = *flag.Bool("v", false, ""), *flag.Bool("d", false, "")
	level          = *flag.Int("level", 0, "")
)

// identical regexps compiled several times on one line
func regexps(s string) bool {
	a, b := regexp.MustCompile(`^[a-z]+\d$`), regexp.MustCompile(`^[a-z]+\d$`)
	c := regexp.MustCompile(`^[a-z]+\d$`)
	return a.MatchString(s) && b.MatchString(s) && c.MatchString(s)
}

// wrapper candidates, two per line
func wrappers(s string, b []byte) (string, string, []byte) {
	x, y := strings.SplitN(s, ",", -1), strings.Replace(s, "a", "b", -1)
	_ = strings.SplitN(s, ",", -1)
	return x[0], y, bytes.Replace(b, b, b, -1)
}

// unslice, underef, several per line
func slices(xs []int, p *[4]int, s string) (int, int, string) {
	a, b := xs[:], xs[:]
	_ = xs[:]
	return len(a) + len(b), (*p)[0] + (*p)[1] + (*p)[0], s[:]
}
