package dense

import (
	"fmt"
	"strings"
)

type pair struct{ l, r int }

// swaps through a temporary, twice in one function with the same names
func swaps(p, q *pair) {
	tmp := p.l
	p.l = p.r
	p.r = tmp
	tmp = q.l
	q.l = q.r
	q.r = tmp
}

// the same lambda wrapper twice per line
func lambdas(xs []string) (func(string) string, func(string) string) {
	f, g := func(s string) string { return strings.ToUpper(s) }, func(s string) string { return strings.ToUpper(s) }
	_ = func(s string) string { return strings.ToUpper(s) }
	return f, g
}

// duplicated arguments, several calls per line
func dupArgs(a, b string) bool {
	r := strings.Contains(a, a) || strings.HasPrefix(b, b) || strings.Contains(a, a)
	return r && strings.EqualFold(a, a)
}

// case-insensitive comparisons written by hand, twice per line
func folds(a, b string) bool {
	return strings.ToLower(a) == strings.ToLower(b) || strings.ToUpper(a) == strings.ToUpper(b) || strings.ToLower(a) == strings.ToLower(b)
}

// len comparisons that are always true / false, several per line
func sloppy(xs []int, s string) bool {
	return len(xs) >= 0 || len(s) < 0 || len(xs) >= 0 || len(xs) <= 0
}

// if-else chains and single-case switches, side by side
func chains(x int) string {
	if x == 1 { return "a" } else if x == 2 { return "b" } else if x == 3 { return "c" } else { return "d" }
}

func switches(x, y int) (s string) {
	switch x { case 1: s = "a" }
	switch y { case 1: s += "a" }
	switch x { case 1: s = "a" }
	return s
}

// Sprintf candidates and string conversions, repeated
func sprints(err error, n int) (string, string, string) {
	return fmt.Sprintf("%s", err), fmt.Sprintf("%s", err), fmt.Sprintf("%d", n)
}

// append chains that could be combined, twice
func appends(xs, ys []int) ([]int, []int) {
	xs = append(xs, 1)
	xs = append(xs, 2)
	ys = append(ys, 1)
	ys = append(ys, 2)
	return xs, ys
}

// off-by-one candidates, repeated on one line
func lasts(xs, ys []int) int {
	return xs[len(xs)] + ys[len(ys)] + xs[len(xs)]
}
