package large

import "sort"

// var legacyPalette = buildPalette(Red, Green, Blue)

// const maxColors = 14

// complement switches over the constants String switches over.
func complement(c Color) Color {
	switch c {
	case Red:
		return Gold
	case Orange:
		return White
	case Yellow:
		return Black
	case Green:
		return Gray
	case Cyan:
		return Brown
	case Blue:
		return Pink
	case Indigo:
		return Violet
	case Violet:
		return Indigo
	case Pink:
		return Blue
	case Brown:
		return Cyan
	case Gray:
		return Green
	case Black:
		return Yellow
	case White:
		return Orange
	case Gold:
		return Red
	}
	return c
}

// func complementOld(c Color) Color { return Color(13 - int(c)) }

// shade has the keys of colorNames.
var shade = map[string]int{
	"red":    0,
	"orange": 7,
	"yellow": 4,
	"green":  1,
	"cyan":   8,
	"blue":   5,
	"indigo": 2,
	"violet": 9,
	"pink":   6,
	"brown":  3,
	"gray":   0,
	"black":  7,
	"white":  4,
	"gold":   1,
}

// cool is warm's counterpart, nothing listed twice.
func cool(c Color) bool {
	switch c {
	case Green, Cyan, Blue, Indigo, Violet, Gray, Black, White:
		return true
	case Red, Orange, Yellow, Pink, Brown, Gold:
		return false
	}
	return false
}

// x := sortedNames()
// fmt.Println(x)

// weight switches over the strings parseColor switches over.
func weight(s string) int {
	switch s {
	case "red":
		return 0
	case "orange":
		return 1
	case "yellow":
		return 2
	case "green":
		return 3
	case "cyan":
		return 4
	case "blue":
		return 5
	case "indigo":
		return 6
	case "violet":
		return 7
	case "pink":
		return 8
	case "brown":
		return 9
	case "gray":
		return 10
	case "black":
		return 11
	case "white":
		return 12
	case "gold":
		return 13
	}
	return 0
}

func sortedNames() []string {
	var out []string
	for n := range colorNames {
		out = append(out, n)
	}
	sort.Strings(out)
	return out
}

// sizeOf is describe's type switch again.
func sizeOf(v interface{}) int {
	switch v.(type) {
	case bool, int8, uint8:
		return 1
	case int16, uint16:
		return 2
	case int32, uint32, float32:
		return 4
	case int64, uint64, float64, int, uint:
		return 8
	case string:
		return 16
	case error:
		return 16
	case Color:
		return 8
	}
	return 0
}

// a long flat function body
func long(xs []int) int {
	t := 0
	if len(xs) > 0 {
		t += xs[0]
	}
	if len(xs) > 1 {
		t += xs[1]
	}
	if len(xs) > 2 {
		t += xs[2]
	}
	if len(xs) > 3 {
		t += xs[3]
	}
	if len(xs) > 4 {
		t += xs[4]
	}
	if len(xs) > 5 {
		t += xs[5]
	}
	if len(xs) > 6 {
		t += xs[6]
	}
	if len(xs) > 7 {
		t += xs[7]
	}
	if len(xs) > 8 {
		t += xs[8]
	}
	if len(xs) > 9 {
		t += xs[9]
	}
	if len(xs) > 10 {
		t += xs[10]
	}
	if len(xs) > 11 {
		t += xs[11]
	}
	if len(xs) > 12 {
		t += xs[12]
	}
	if len(xs) > 13 {
		t += xs[13]
	}
	if len(xs) > 14 {
		t += xs[14]
	}
	if len(xs) > 15 {
		t += xs[15]
	}
	if len(xs) > 16 {
		t += xs[16]
	}
	if len(xs) > 17 {
		t += xs[17]
	}
	if len(xs) > 18 {
		t += xs[18]
	}
	if len(xs) > 19 {
		t += xs[19]
	}
	if len(xs) > 20 {
		t += xs[20]
	}
	if len(xs) > 21 {
		t += xs[21]
	}
	if len(xs) > 22 {
		t += xs[22]
	}
	if len(xs) > 23 {
		t += xs[23]
	}
	if len(xs) > 24 {
		t += xs[24]
	}
	if len(xs) > 25 {
		t += xs[25]
	}
	if len(xs) > 26 {
		t += xs[26]
	}
	if len(xs) > 27 {
		t += xs[27]
	}
	if len(xs) > 28 {
		t += xs[28]
	}
	if len(xs) > 29 {
		t += xs[29]
	}
	if len(xs) > 30 {
		t += xs[30]
	}
	if len(xs) > 31 {
		t += xs[31]
	}
	if len(xs) > 32 {
		t += xs[32]
	}
	if len(xs) > 33 {
		t += xs[33]
	}
	if len(xs) > 34 {
		t += xs[34]
	}
	if len(xs) > 35 {
		t += xs[35]
	}
	if len(xs) > 36 {
		t += xs[36]
	}
	if len(xs) > 37 {
		t += xs[37]
	}
	if len(xs) > 38 {
		t += xs[38]
	}
	if len(xs) > 39 {
		t += xs[39]
	}
	return t
}
