// Package large: constructs beyond the size at which an implementation
// switches strategy - switches, map literals, type switches, assertion chains,
// parameter lists and function bodies with a dozen or more entries, several of
// them over the SAME constants and keys in different functions and files (an
// enumeration's String, parse and table are the everyday case) - and top-level
// comments that hold code. Scratch tables, indexes and per-file caches that only
// come into play for big inputs have their first customers here.
package large

import (
	"errors"
	"fmt"
	"io"
)

// Color is an enumeration.
type Color int

const (
	Red Color = iota
	Orange
	Yellow
	Green
	Cyan
	Blue
	Indigo
	Violet
	Pink
	Brown
	Gray
	Black
	White
	Gold
)

// var debugColors = lookupEnv("LARGE_DEBUG", "0")

// String names the colour.
func (c Color) String() string {
	switch c {
	case Red:
		return "red"
	case Orange:
		return "orange"
	case Yellow:
		return "yellow"
	case Green:
		return "green"
	case Cyan:
		return "cyan"
	case Blue:
		return "blue"
	case Indigo:
		return "indigo"
	case Violet:
		return "violet"
	case Pink:
		return "pink"
	case Brown:
		return "brown"
	case Gray:
		return "gray"
	case Black:
		return "black"
	case White:
		return "white"
	case Gold:
		return "gold"
	}
	return "?"
}

// parseColor is the inverse of String.
func parseColor(s string) (Color, error) {
	switch s {
	case "red":
		return Red, nil
	case "orange":
		return Orange, nil
	case "yellow":
		return Yellow, nil
	case "green":
		return Green, nil
	case "cyan":
		return Cyan, nil
	case "blue":
		return Blue, nil
	case "indigo":
		return Indigo, nil
	case "violet":
		return Violet, nil
	case "pink":
		return Pink, nil
	case "brown":
		return Brown, nil
	case "gray":
		return Gray, nil
	case "black":
		return Black, nil
	case "white":
		return White, nil
	case "gold":
		return Gold, nil
	}
	return 0, errors.New("unknown colour")
}

// warm reports whether the colour is a warm one; Red and Cyan are listed twice.
func warm(c Color) bool {
	switch {
	case c == Red, c == Orange, c == Yellow, c == Pink, c == Brown, c == Gold, c == Red:
		return true
	case c == Green, c == Cyan, c == Blue, c == Indigo, c == Violet, c == Gray, c == Black, c == White, c == Cyan:
		return false
	}
	return false
}

var colorNames = map[string]Color{
	"red":    Red,
	"orange": Orange,
	"yellow": Yellow,
	"green":  Green,
	"cyan":   Cyan,
	"blue":   Blue,
	"indigo": Indigo,
	"violet": Violet,
	"pink":   Pink,
	"brown":  Brown,
	"gray":   Gray,
	"black":  Black,
	"white":  White,
	"gold":   Gold,
}

var colorCodes = map[Color]string{
	Red:    "#000000",
	Orange: "#111111",
	Yellow: "#222222",
	Green:  "#333333",
	Cyan:   "#444444",
	Blue:   "#555555",
	Indigo: "#666666",
	Violet: "#777777",
	Pink:   "#888888",
	Brown:  "#999999",
	Gray:   "#aaaaaa",
	Black:  "#bbbbbb",
	White:  "#cccccc",
	Gold:   "#dddddd",
}

// func oldParse(s string) Color {
// 	return colorNames[s]
// }

// describe is a type switch with more than a dozen cases.
func describe(v interface{}) string {
	switch x := v.(type) {
	case nil:
		return "nil"
	case bool:
		return "bool"
	case int:
		return "int"
	case int8:
		return "int8"
	case int16:
		return "int16"
	case int32:
		return "int32"
	case int64:
		return "int64"
	case uint:
		return "uint"
	case uint8:
		return "uint8"
	case uint16:
		return "uint16"
	case uint32:
		return "uint32"
	case uint64:
		return "uint64"
	case float32:
		return "float32"
	case float64:
		return "float64"
	case string:
		return "string"
	case error:
		return x.Error()
	case fmt.Stringer:
		return x.String()
	case Color:
		return "color"
	}
	return "other"
}

// kindOf is an assertion chain over the same types.
func kindOf(v interface{}) int {
	if _, ok := v.(bool); ok {
		return 1
	} else if _, ok := v.(int); ok {
		return 2
	} else if _, ok := v.(int8); ok {
		return 3
	} else if _, ok := v.(int16); ok {
		return 4
	} else if _, ok := v.(int32); ok {
		return 5
	} else if _, ok := v.(int64); ok {
		return 6
	} else if _, ok := v.(uint); ok {
		return 7
	} else if _, ok := v.(uint8); ok {
		return 8
	} else if _, ok := v.(uint16); ok {
		return 9
	} else if _, ok := v.(string); ok {
		return 10
	} else if _, ok := v.(error); ok {
		return 11
	} else if _, ok := v.(io.Reader); ok {
		return 12
	}
	return 0
}

// many parameters, many results
func mix(a, b, c, d, e, f, g, h, i, j, k, l int, s, t, u string, p, q bool) (int, int, string, bool, error) {
	return a + b + c + d + e + f + g + h + i + j + k + l, len(s) + len(t) + len(u), s + t + u, p || q, nil
}

// conditions chained a dozen deep over the same operands
func classify(n int) string {
	if n == 0 {
		return "zero"
	} else if n == 1 {
		return "one"
	} else if n == 2 {
		return "two"
	} else if n == 3 {
		return "three"
	} else if n == 4 {
		return "four"
	} else if n == 5 {
		return "five"
	} else if n == 6 {
		return "six"
	} else if n == 7 {
		return "seven"
	} else if n == 8 {
		return "eight"
	} else if n == 9 {
		return "nine"
	} else if n == 10 {
		return "ten"
	} else if n == 3 {
		return "three again"
	}
	return "many"
}

// next and prev are plain functions that switch over the same constants.
func next(c Color) Color {
	switch c {
	case Red:
		return Orange
	case Orange:
		return Yellow
	case Yellow:
		return Green
	case Green:
		return Cyan
	case Cyan:
		return Blue
	case Blue:
		return Indigo
	case Indigo:
		return Violet
	case Violet:
		return Pink
	case Pink:
		return Brown
	case Brown:
		return Gray
	case Gray:
		return Black
	case Black:
		return White
	case White:
		return Gold
	case Gold:
		return Red
	}
	return c
}

func prev(c Color) Color {
	switch c {
	case Red:
		return Gold
	case Orange:
		return Red
	case Yellow:
		return Orange
	case Green:
		return Yellow
	case Cyan:
		return Green
	case Blue:
		return Cyan
	case Indigo:
		return Blue
	case Violet:
		return Indigo
	case Pink:
		return Violet
	case Brown:
		return Pink
	case Gray:
		return Brown
	case Black:
		return Gray
	case White:
		return Black
	case Gold:
		return White
	}
	return c
}

// two plain functions with map literals over the same keys
func tableHue() map[string]int {
	return map[string]int{
		"red":    0,
		"orange": 26,
		"yellow": 52,
		"green":  78,
		"cyan":   104,
		"blue":   130,
		"indigo": 156,
		"violet": 182,
		"pink":   208,
		"brown":  234,
		"gray":   260,
		"black":  286,
		"white":  312,
		"gold":   338,
	}
}

func tableLuma() map[string]float64 {
	return map[string]float64{
		"red":    0.00,
		"orange": 0.07,
		"yellow": 0.14,
		"green":  0.21,
		"cyan":   0.28,
		"blue":   0.35,
		"indigo": 0.42,
		"violet": 0.49,
		"pink":   0.56,
		"brown":  0.63,
		"gray":   0.70,
		"black":  0.77,
		"white":  0.84,
		"gold":   0.91,
	}
}
