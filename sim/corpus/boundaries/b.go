package boundaries

import "strings"

// this file begins with what a.go ends with, and ends with what a.go begins with
func firstOfFile(o offset, max int8) bool {
	return max < int8(o)
}

func shadowStrings(strings string) int {
	return len(strings)
}

func useStrings(s string) bool {
	return strings.Contains(s, "x") && strings.Contains(s, "x")
}

func lastOfFile() []string {
	audit = append(audit, "c")
	journal = append(journal, "d")
	journal = append(journal, "e")
	return journal
}
