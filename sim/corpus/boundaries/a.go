// Package boundaries: what a function body, a block or a file BEGINS and ENDS with.
// A visitor that carries something from the last statement of one list into the first
// statement of the next (the next block, the next function, the next file) shows here:
// every function below starts and ends with the kind of statement some checker keeps
// state about, and neighbouring functions use different variables for it.
package boundaries

import (
	"time"
	stdtime "time"
)

var journal, audit []string

func record(e string) {
	if e != "" {
		journal = append(journal, e)
	}
}

func registerDefaults() []string {
	audit = append(audit, "a")
	audit = append(audit, "b")
	return audit
}

func registerThree() {
	journal = append(journal, "x")
	journal = append(journal, "y")
	journal = append(journal, "z")
}

func endsWithAppend(xs []int) []int {
	if len(xs) == 0 {
		xs = append(xs, 1)
		xs = append(xs, 2)
	}
	xs = append(xs, 3)
	return xs
}

func startsWithAssign(a, b int) int {
	a = a + 1
	b = b * 2
	return a + b
}

func endsWithDefer(f func()) {
	for i := 0; i < 2; i++ {
		defer f()
	}
}

func startsWithDefer(f func()) {
	defer f()
	for i := 0; i < 2; i++ {
		defer f()
	}
}

// the same package under two names, and defined types of it in truncating comparisons
func tooLong(d time.Duration, limit int32) bool {
	return int32(d) > limit
}

func tooLongStd(d stdtime.Duration, limit int16) bool {
	return limit < int16(d) || int16(d) == limit
}

type offset int64

func beyond(o offset, max int8) bool {
	return int8(o) > max
}
