package floats

func intFirst(x int) bool {
	return x > 20 && x < 22
}

func thenFloat(f1, f2 float64) bool {
	return !(f1 >= f2)
}

func thenIntAgain(x int) bool {
	return x > 30 && x < 32
}
