// Package floats: float and integer comparisons in neighbouring functions, in
// both orders, so that state kept between functions shows.
package floats

func floatNegation(f1, f2 float64) bool {
	return !(f1 == f2) || !(f1 < f2)
}

func intRange(x int) bool {
	return x > 10 && x < 12
}

func intNegations(a, b int) bool {
	if !(a >= b) {
		return a+1 > b
	}
	return !(a != b)
}

func floatRange(f float64) bool {
	return f > 0 && f <= 1
}

func intRangeAgain(y int) bool {
	return y >= 3 && y <= 3 || y > 7 && y < 9
}

func mixed(f float32, n int) bool {
	return !(f > 1) && n > 0 && n < 2
}
