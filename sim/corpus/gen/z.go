package gen

func afterGenerated(xs []int) int {
	total := 0
	for i := 0; i < len(xs); i++ {
		total = total + xs[i]
	}
	if len(xs) == 0 && len(xs) == 0 {
		return 0
	}
	return total
}
