package gen

import "strings"

func handWritten(a, b int, s string) bool {
	a = a + 1
	if !(a == b) {
		return strings.Contains(s, s)
	}
	return len(s) >= 0
}
