// Package ruleprobe is analysed by the generated user rule files of the C18 runs:
// every (file, group) pair of a run matches exactly one call below.
package ruleprobe

func mark(s string) string { return s }

func probes() []string {
	return []string{
		mark("f0g0"),
		mark("f0g1"),
		mark("f0g2"),
		mark("f0g3"),
		mark("f1g0"),
		mark("f1g1"),
		mark("f1g2"),
		mark("f1g3"),
		mark("f2g0"),
		mark("f2g1"),
		mark("f2g2"),
		mark("f2g3"),
		mark("f3g0"),
		mark("f3g1"),
		mark("f3g2"),
		mark("f3g3"),
	}
}
