// Package sharednodes puts many checkers on the same syntax nodes.
package sharednodes

import (
	"fmt"
	"strings"
)

type point struct{ x, y int }

func bools(a, b int, p *point, s string, xs []int) bool {
	if !(a == b) { // boolExprSimplify
		return false
	}
	if !(a != b) || !(a < b) {
		return true
	}
	if (a == 1) || (a == 1) { // dupSubExpr + parens
		return true
	}
	if 10 == a || nil == p { // yoda
		return true
	}
	if a < 10 && a > 20 { // badCond
		return true
	}
	if (*p).x == 0 && (*p).y == 0 { // underef
		return true
	}
	if len(s) == 0 || len(xs) >= 0 { // emptyStringTest, sloppyLen
		return true
	}
	if strings.ToLower(s) == strings.ToLower("ABC") { // equalFold
		return true
	}
	if !(a+1 > b) && !(b-1 < a) {
		return a > b
	}
	return !(!(a == b))
}

func parens(fn func(int) (int, error), arr [](int), m map[string](*point)) (func()) { // typeUnparen
	var _ (int) = 1
	var _ [](func()) = nil
	_ = arr
	_ = m
	_, _ = fn(1)
	return nil
}

func assign(a, b int, s string, p *point) (int, string) {
	a = a + 1 // assignOp
	b = b * 2
	s = s + "x"
	a, b = b, a
	tmp := a // valSwap
	a = b
	b = tmp
	p.x = p.x + 1
	_ = fmt.Sprintf("%s", s)     // redundantSprint-like
	_ = fmt.Sprint("a") + s      // stringConcat
	_ = strings.Index(s, "x") >= 0 // wrapperFunc-ish / preferContains
	switch { // switchTrue style
	case a > b:
		return a, s
	}
	switch true {
	case a < b:
		return b, s
	}
	return a + b, s
}

func combine(a int, b int, c string, d string, e, f float64) (x int, y int) { // paramTypeCombine
	return a + b, len(c) + len(d) + int(e+f)
}

func method() {
	var p point
	point.get(p) // methodExprCall
	f := func(x int) bool { return bools(x, x, nil, "", nil) != false && true == true }
	_ = f
}

func (p point) get() int { return p.x }
