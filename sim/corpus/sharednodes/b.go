package sharednodes

import "errors"

var errA = errors.New("a")

func reassign() error {
	var err error
	if err = work(); err != nil { // sloppyReassign
		return err
	}
	x, err := 1, work()
	_ = x
	if !(err == nil) && !(x != 1) {
		return errA
	}
	return nil
}

func work() error { return nil }

func loop(xs []int, ys [][]int) int {
	total := 0
	for i := 0; i < len(xs); i++ {
		if !(xs[i] >= 0) {
			continue
		}
		total = total + xs[i]
		if i >= 0 || !(i < 0) {
			total += 1
		}
	}
	for _, y := range ys {
		if (len(y) == 0) == false {
			total -= len(y[:])
		}
	}
	return total
}
