package generics

func moreParams[A, B any](p struct {
	a A
	b B
}, q [8]struct{ a A }, r big) int {
	_ = p
	_ = r
	n := 0
	for _, e := range q {
		_ = e
		n++
	}
	return n
}

type list[T any] struct {
	head *node[T]
	buf  [16]T
}

type node[T any] struct {
	val  T
	next *node[T]
}

func (l list[T]) each(f func(node[T])) {
	for n := l.head; n != nil; n = n.next {
		f(*n)
	}
}
