package generics

func moreParams[A, B any](p struct {
	a A
	b B
}, q [8]struct{ a A }, r big) int {
	_ = p
	_ = r
	n := 0
	for _, e := range q {
		_ = e
		n++
	}
	return n
}

type list[T any] struct {
	head *node[T]
	buf  [16]T
}

type node[T any] struct {
	val  T
	next *node[T]
}

func (l list[T]) each(f func(node[T])) {
	for n := l.head; n != nil; n = n.next {
		f(*n)
	}
}

// Same printed form, different types: a function-local type is printed as
// pkgpath.Name whatever function declares it. `rec` below is, in turn, a type
// whose size cannot be computed (it holds a type parameter), a large one and a
// small one; `[4]generics.rec` and `[]generics.rec` are three types each.
func recGeneric[T any](seed T) int {
	type rec struct{ v T }
	var arr [4]rec
	arr[0].v = seed
	n := 0
	for i, r := range arr {
		_ = r
		n += i
	}
	return n
}

func recLarge() int {
	type rec struct{ buf [1024]byte }
	n := 0
	for _, a := range [][4]rec{} {
		n += len(a)
	}
	var one [4]rec
	for _, r := range one {
		n += int(r.buf[0])
	}
	return n
}

func recSmall() int {
	type rec struct{ b byte }
	n := 0
	for _, a := range [][4]rec{} {
		n += len(a)
	}
	var one [4]rec
	for _, r := range one {
		n += int(r.b)
	}
	return n
}

func recParam[T any](p struct{ v [64]T }, q [8]struct{ v T }) {
	type rec struct {
		v   T
		pad [512]byte
	}
	for _, r := range []rec{} {
		_ = r
	}
	_, _ = p, q
}
