// Package generics: type-parameterised code in front of the size-based checkers.
package generics

type big struct{ a, b, c, d, e, f, g, h, i, j, k, l int64 }

type box[T any] struct {
	id  T
	pad big
}

func sizeOfParam[T any](b struct{ id T }, w box[T], plain big) T {
	_ = w
	_ = plain
	return b.id
}

func rangeOver[T comparable](xs []struct{ id T }, ys [4]box[T], zs []big) (n int) {
	for _, x := range xs {
		var zero T
		if x.id == zero {
			n++
		}
	}
	for _, y := range ys {
		_ = y
		n++
	}
	for _, z := range zs {
		n += int(z.a)
	}
	return n
}

func localTypes[K comparable, V any](m map[K]V) int {
	type pair struct {
		k K
		v V
	}
	var ps []pair
	for k, v := range m {
		ps = append(ps, pair{k, v})
	}
	n := 0
	for _, p := range ps {
		_ = p
		n++
	}
	arr := [2]struct{ v V }{}
	for _, a := range arr {
		_ = a
	}
	return n
}

func truncates[T ~int64](x T, y int64) bool {
	return int32(y) < 10 || len([]T{x}) > int(int8(y))
}
