
package chains

import "io"



func asserts2(v interface{}) int {
	if x, ok := v.(int); ok {
		return x
	} else if x, ok := v.(string); ok {
		return len(x)
	} else if x, ok := v.(circle); ok {
		return int(x.r)
	} else if x, ok := v.(io.Reader); ok {
		_ = x
		return 4
	}
	if _, ok := v.(int); ok { // the very same types again: stale per-function state would mis-report here
		return 1
	} else if _, ok := v.(string); ok {
		return 2
	}
	return 0
}

func ifelse2(a int) int {
	if a == 1 {
		return 1
	} else if a == 2 {
		return 2
	} else if a == 3 {
		return 3
	} else if a == 1 { // dupCase-ish in if chain
		return 4
	}
	switch a {
	case 1, 2:
		return 1
	case 3, 4:
		return 3
	}
	m := map[string]int{"a": 1, "b": 2, "a ": 3, " a": 4}
	return m["a"]
}

func tswitch2(v interface{}) float64 {
	switch v.(type) {
	case circle:
		return v.(circle).area()
	case square:
		return v.(square).area()
	case shape:
		return v.(shape).area()
	}
	switch x := v.(type) {
	case io.Reader:
		_ = x
	case io.ReadCloser: // caseOrder
		_ = x
	}
	return 0
}

func deferLoop2(rs []io.Closer) {
	for _, r := range rs {
		defer r.Close()
	}
	func() {
		defer func() {}()
		return
	}()
}
