// Package nested puts rewritable expressions INSIDE the operands of other
// expressions: call arguments, index expressions, function literals,
// composite literals, selectors and conversions.
package nested

import (
	"fmt"
	"regexp"
	"strings"
)

type cfg struct {
	on    bool
	names []string
	table [16]bool
}

func check(b bool) bool          { return b }
func count(f func(int) bool) int { return len(fmt.Sprint(f(1))) }
func pick(bs ...bool) bool       { return len(bs) > 0 && bs[0] }

func inCalls(a, x int, ready bool, c *cfg) bool {
	if ready && check(!(a == a)) { // simplifiable expression inside a call operand
		return true
	}
	if count(func(v int) bool { return !(v >= x) }) > 0 && ready {
		return false
	}
	if ready || c.table[x&15] && c.table[(x+1)&15] == true {
		return pick(!(a != x), !!ready, x > 10 && x < 12)
	}
	return !ready && check(!!ready)
}

func inLiterals(a, b int, s string) []bool {
	m := map[bool]string{!(a == b): "ne", a+1 > b: "ge", len(s) == 0: "empty"}
	_ = m
	return []bool{
		!(a < b),
		strings.ToLower(s) == strings.ToLower("X"),
		func() bool { return !(len(s) >= 0) }(),
		(*(&cfg{on: !(a > b)})).on,
	}
}

func inSelectors(c *cfg, s string) (int, error) {
	n := len((*c).names[:])
	re := regexp.MustCompile(`(?:a|b)` + strings.Repeat(`[0-9][0-9]*`, 1))
	if (*c).on == true && re.MatchString(fmt.Sprintf("%s", s)) {
		return n, fmt.Errorf(fmt.Sprintf("bad %s", s))
	}
	for i := 0; i < len((*c).names); i++ {
		(*c).names[i] = (*c).names[i] + strings.ToUpper(fmt.Sprint(i))
	}
	return n, nil
}

/* block comment */
// directly followed by a line comment
func commented() {
	/* TODO */
	// see the ticket
	x := 1 /* trailing block */ // and a line comment
	_ = x
	// fmt.Println("commented out")
	/* also(commented.out) */
}
