package nested

import "sort"

type (
	matrix   [][](int)
	handler  (func(int) (bool))
	registry map[(string)]([]*(cfg))
)

func conversions(v interface{}, xs []int) int {
	f := (func())(nil)
	p := (*cfg)(nil)
	_ = f
	_ = p
	sort.Slice(xs, func(i, j int) bool { return !(xs[i] >= xs[j]) })
	switch t := v.(type) {
	case (int):
		return t
	case *(cfg):
		return len(t.names)
	}
	var r registry = map[(string)]([]*(cfg)){}
	return len(r) + cap(matrix(nil)) + len([](handler){})
}

func deeper(a []int, ok bool) func() func() bool {
	return func() func() bool {
		return func() bool {
			if !(len(a) != 0) || ok == false {
				return !(a[0] > a[len(a)-1])
			}
			return !!ok
		}
	}
}
