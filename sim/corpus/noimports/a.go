// Package noimports: one file with several imports, one file with none.
package noimports

import (
	"fmt"
	"os"
	"path/filepath"
	"strings"
)

func withImports(args []string) string {
	fmt.Fprintln(os.Stderr, strings.Join(args, " "))
	return filepath.Join(args...)
}

func shadowsHere(filepath string) int { // shadows an import of THIS file
	return len(filepath)
}
