package noimports

// No import declaration in this file: the names below are ordinary identifiers
// here, whatever another file of the run imported.

func plain(fmt string, os int) (strings []string) {
	filepath := fmt
	for i := 0; i < os; i++ {
		strings = append(strings, filepath)
	}
	return strings
}

func alsoPlain() int {
	var fmt, os, filepath, strings = 1, 2, 3, 4
	return fmt + os + filepath + strings
}
