// Package regexps feeds the regexp analysing checkers.
package regexps

import "regexp"

var (
	re1 = regexp.MustCompile(`(?:a|b|c)   [a-z][a-z]*`)
	re2 = regexp.MustCompile(`^http://example.com/path$`)
	re3 = regexp.MustCompile(`[0-9]+[0-9]*|\d\d*|x{1,1}|y{0,1}|z{1,}`)
	re4 = regexp.MustCompile(`(?i)foo(?i)bar|[aa]|[a-a]|(?s:x)(?s:y)`)
	re5 = regexp.MustCompile(`google.com|yandex.ru`)
	re6 = regexp.MustCompile("[[:alpha:]][[:alpha:]]*" + `\.com$`)
)

func compile(s string) (*regexp.Regexp, error) {
	if _, err := regexp.Compile(`(a|b)(a|b)|\Qliteral\E|[\w\W]`); err != nil {
		return nil, err
	}
	a := regexp.MustCompile(`(?m)^x$(?m)`)
	b := regexp.MustCompile(`a**|[^\x00-\x{10FFFF}]|(?i)(?-i)z`)
	_, _ = a, b
	return regexp.Compile(s)
}

func again() {
	for i := 0; i < 3; i++ {
		re := regexp.MustCompile(`\d\d\d\d-\d\d-\d\d|[A-Za-z0-9_]|[a-zA-Z0-9_]`)
		_ = re
	}
}
