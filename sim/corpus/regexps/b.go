package regexps

import "regexp"

var more = []*regexp.Regexp{
	regexp.MustCompile(`(?i)(?i)x|(?i:y(?i:z))`),
	regexp.MustCompile(`^\*\.example\.com$|a.b.com`),
	regexp.MustCompile(`[abc]|[a-c]|a|b|c|(?:abc)`),
}

func dyn(p string) bool {
	return regexp.MustCompile(p+`x{3}{2}`).MatchString("x") || regexp.MustCompile(`\bfoo\b|(?:fo{1}o)`).MatchString(p)
}
