package edges

type point struct {
	x (int)
	y (*int)
}

type shaper interface {
	area(scale (float64)) (float64)
}

type wrapped struct {
	inner struct {
		tags [](string)
		fn   (func(int) int)
	}
}

func second(p point) int {
	if p.y == nil {
		return p.x
	}
	return p.x + *(p.y)
}

// the file ends with a function whose only content is a comment
func last() {
	// second(point{})
}
