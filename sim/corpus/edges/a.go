// Package edges: files whose FIRST and LAST declarations exercise the walkers'
// per-visit flags and per-function state.
package edges

type iface interface{ m() }
type impl struct{ n int }

func (*impl) m() {}

func first(xs []int) int {
	total := 0
	for _, x := range xs {
		total = total + x
	}
	return total
}

var handlers = map[string](func()){"a": (func())(nil)}

// the last declarations of this file are conversions to pointer and func types
var _ = (func())(nil)
var _ iface = (*impl)(nil)
