// Package alias: one of two packages with the SAME package name, the same file
// base names, the same declaration names and the same layout (every construct sits
// at the same line:column in both), but different types behind the names. Any
// long-lived table keyed by a name, a printed type, a base file name or a position
// without its file gives the wrong answer for one of them.
package alias

import "strings"

// Rec has a different size in the twin package.
type Rec struct{ data [0x008]byte }

// Pair is declared here; its methods live in b.go.
type Pair struct{ l, r int }

func (t Triple) Sum() int { return t.a + t.b + t.c }

func SumRecs(recs []Rec) (n int) {
	for _, r := range recs {
		n += int(r.data[0])
	}
	return n
}

func TakeRec(r Rec) byte { return r.data[0] }

func firstRows() int {
	type row struct{ cells [0x02]int64 }
	rows := []row{{}}
	n := 0
	for _, r := range rows {
		n += int(r.cells[0])
	}
	return n
}

func secondRows() int {
	type row struct{ cells [0x40]int64 }
	rows := []row{{}}
	n := 0
	for _, r := range rows {
		n += int(r.cells[0])
	}
	return n
}

func Lookup(s string) bool {
	type key struct{ id [0x02]int32 }
	var k key
	return strings.Contains(s, "x") && len(k.id) > 0
}

func sized(v interface{}) int {
	switch v := v.(type) {
	case Rec:
		return len(v.data)
	case *Rec:
		return len(v.data)
	}
	return 0
}
