package alias

import strings "strings"

// Triple is declared here; its method lives in a.go.
type Triple struct{ a, b, c int }

func (p Pair) Left() int   { return p.l }
func (p *Pair) Right() int { return p.r }

func thirdRows() int {
	type row struct{ cells [0x40]int64 }
	rows := []row{{}}
	n := 0
	for _, r := range rows {
		n += int(r.cells[0])
	}
	return n
}

func fourthRows() int {
	type row struct{ cells [0x02]int64 }
	rows := []row{{}}
	n := 0
	for _, r := range rows {
		n += int(r.cells[0])
	}
	return n
}

func Find(s []byte) bool {
	type key struct{ id [0x40]int32 }
	var k key
	return strings.Contains(string(s), "x") && len(k.id) > 0
}

func passKey() int {
	type key struct{ id [0x40]int32 }
	f := func(k key) int { return len(k.id) }
	return f(key{})
}

func passKeyToo() int {
	type key struct{ id [0x02]int32 }
	f := func(k key) int { return len(k.id) }
	return f(key{})
}
