package multidup

import (
	"bytes"
	bb "bytes"
	"sort"
	srt "sort"
	"time"
	tm "time"
)

func Later(bytes []byte, sort string) (bb.Buffer, tm.Duration) {
	var b bb.Buffer
	b.Write(bytes)
	srt.Strings([]string{sort})
	return b, tm.Second
}

var (
	_ = bytes.NewReader
	_ = sort.Ints
	_ = time.Now
)
