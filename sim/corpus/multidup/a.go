// Package multidup: several duplicated import groups and shadowed imports in one file.
package multidup

import (
	"fmt"
	printing "fmt"
	"os"
	"strings"
	str "strings"
)

import (
	operating "os"
	txt "strings"
)

import p2 "fmt"

func Use(strings []string) string { // shadows the import
	fmt.Println(len(strings))
	printing.Println(os.Args, operating.Args)
	p2.Println(str.ToUpper("x"), txt.ToLower("Y"))
	return str.Join(strings, ",")
}

func Shadow(os int, fmt string) (int, string) { // two more shadows
	return os, fmt
}

var _ = strings.TrimSpace
