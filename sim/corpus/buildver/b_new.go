package buildver

import (
	"os"
	"strings"
	"sync"
	"time"
)

const newMode = 0600

func initOnce(f func()) {
	sync.OnceFunc(f)()
}

func splitKV(s string) (string, string) {
	idx := strings.Index(s, "=")
	if idx == -1 {
		return s, ""
	}
	return s[:idx], s[idx+1:]
}

func elapsed(t time.Time) time.Duration {
	return time.Now().Sub(t)
}

func deadline(t time.Time) bool {
	return t.Unix() < time.Now().Unix()
}

func loadAndDelete(m *sync.Map, k string) interface{} {
	v, ok := m.Load(k)
	if ok {
		m.Delete(k)
		return v
	}
	return nil
}

func chmod(name string) error { return os.Chmod(name, 0640) }
