//go:build go1.12

// Package buildver: files of one package that carry different language-version
// constraints. A checker that reads a per-file version must not leave it behind
// for the next file, checker or package.
package buildver

import "os"

const oldMode = 0644

func create(name string) error {
	f, err := os.OpenFile(name, os.O_CREATE, 0755)
	if err != nil {
		return err
	}
	return f.Close()
}
