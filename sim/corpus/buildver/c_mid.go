//go:build go1.20

package buildver

import "os"

func mkdir(name string) error { return os.Mkdir(name, 0750) }
