package literals

// The same unusual spellings in every statement context an expression can sit in.

func inReturn(n int) bool {
	return n >= +0 && n <= +0
}

func inReturnNeg(n int) bool {
	return n >= - -2 && n <= +2
}

func inAssign(n int) (ok bool) {
	ok = n > +1 && n < +3
	also := n >= -+4 && n <= -4
	return ok || also
}

func inCall(n int) bool {
	return id(n >= +5 && n <= +5) || id(n > -7 && n < -5)
}

func id(b bool) bool { return b }

func inSwitch(n int) int {
	switch {
	case n >= +6 && n <= +6:
		return 6
	case n > +7 && n <= +8:
		return 8
	}
	for n >= +9 && n <= +9 {
		n++
	}
	return n
}
