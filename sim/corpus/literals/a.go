// Package literals: unusual but legal spellings of constants in the places
// checkers look at - signed and doubly signed bounds, unary plus, non-decimal
// bases, digit separators, runes, parenthesised and typed constants.
package literals

const limit = +10

func ranges(n, m int, f float64) bool {
	if n >= +0 && n <= +0 { // unary plus on both bounds
		return true
	}
	if m >= -1 && m <= -1 || n > - -1 && n < +3 {
		return false
	}
	if n > 0x10 && n < 0x12 || m >= 0b11 && m <= 0b11 || n > 1_0 && n < 1_2 {
		return n == +m
	}
	if n >= (5) && n <= (5) || m > int(7) && m < int(9) {
		return f > +0.0 && f < 1e0
	}
	return n+1 > limit || -n-1 < -limit || n > 'a' && n < 'c'
}

func loops(xs []int, f func() int, n int) int {
	total := 0
	for i := f(); i > n; i++ {
		total += i
	}
	for i := +0; i < len(xs); i += +1 {
		total += xs[i] * +1
	}
	for i := len(xs) - 1; i >= -0; i-- {
		total -= xs[i]
	}
	return total + 0 + +0 - -0
}

func sums(a, b, c int) bool {
	return a+b > c || a+(+1) > b || a - -1 >= c || (a + 1) > (b)
}
