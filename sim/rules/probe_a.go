//go:build ignore

// User rule files for the simulated workloads: rules whose outcome depends on
// everything the dynamic-rules checker hands to the engine per file - the
// package object, the type information, the file set, the sizes - and rules
// that overlap with the ones in probe_b.go / probe_c.go on the same nodes.
package gorules

import "github.com/quasilyte/go-ruleguard/dsl"

// package-sensitive: which package the analysed file belongs to
func inCorpusPackage(m dsl.Matcher) {
	m.Match(`return $x`).
		Where(m.File().PkgPath.Matches(`/[a-m][A-Za-z0-9]*$`)).
		Report(`return of $x inside a watched package`)
}

// scope-sensitive: is the callee declared at package level of the analysed package
func callsPackageLevel(m dsl.Matcher) {
	m.Match(`$f($*_)`).
		Where(m["f"].Node.Is(`Ident`) && m["f"].Object.IsGlobal() && !m["f"].Text.Matches(`^(len|cap|append|panic|make|new|print|println)$`)).
		Report(`call of package-level $f`)
}

// type-sensitive
func structValue(m dsl.Matcher) {
	m.Match(`$x.$_`).
		Where(m["x"].Type.Underlying().Is(`struct{$*_}`)).
		Report(`field of struct value $x`)
}

// overlaps with probe_b.go and probe_c.go on the same node
func dupCompareA(m dsl.Matcher) {
	m.Match(`$x == $x`, `$x != $x`).Report(`A: $x compared with itself`)
}

func lenCompareA(m dsl.Matcher) {
	m.Match(`len($s) == 0`, `len($s) >= 0`).Report(`A: length test of $s`).Suggest(`A($s)`)
}
