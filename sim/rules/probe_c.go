//go:build ignore

package gorules

import "github.com/quasilyte/go-ruleguard/dsl"

func dupCompareC(m dsl.Matcher) {
	m.Match(`$x == $x`, `$x != $x`).Report(`C: suspicious $$`)
}

func errorTyped(m dsl.Matcher) {
	m.Match(`$e != nil`).
		Where(m["e"].Type.Implements(`error`)).
		Report(`C: error check of $e`)
}

func regexpCalls(m dsl.Matcher) {
	m.Match(`regexp.MustCompile($p)`, `regexp.Compile($p)`).
		Where(m["p"].Const).
		Report(`C: constant pattern $p`)
}

// Two patterns of one rule that match DIFFERENT nodes starting at the same position (the
// call and its callee): the engine reports the same message at the same position twice, and
// the same message again wherever the function is called once more. Whatever folds, sorts
// or de-duplicates reports has exact duplicates and same-text neighbours to deal with.
func calledTwiceOver(m dsl.Matcher) {
	m.Match(`$f($*_)`, `$f`).
		Where(m["f"].Node.Is(`Ident`) && m["f"].Object.IsGlobal() && !m["f"].Text.Matches(`^(len|cap|append|panic|make|new|print|println|string|int|byte|error|bool)$`)).
		Report(`C: package-level $f in use`)
}
