//go:build ignore

package gorules

import "github.com/quasilyte/go-ruleguard/dsl"

func dupCompareC(m dsl.Matcher) {
	m.Match(`$x == $x`, `$x != $x`).Report(`C: suspicious $$`)
}

func errorTyped(m dsl.Matcher) {
	m.Match(`$e != nil`).
		Where(m["e"].Type.Implements(`error`)).
		Report(`C: error check of $e`)
}

func regexpCalls(m dsl.Matcher) {
	m.Match(`regexp.MustCompile($p)`, `regexp.Compile($p)`).
		Where(m["p"].Const).
		Report(`C: constant pattern $p`)
}

// Two patterns of one rule that match DIFFERENT nodes starting at the same position (the
// comparison and its left operand): the engine reports the same message at the same position
// twice, and the same message again wherever the same length is tested once more. Whatever
// folds, sorts or de-duplicates reports has exact duplicates and same-text neighbours to
// deal with.
func lengthLookedAt(m dsl.Matcher) {
	m.Match(`len($s) != 0`, `len($s)`).Report(`C: length of $s looked at`)
}
