//go:build ignore

package gorules

import "github.com/quasilyte/go-ruleguard/dsl"

func dupCompareC(m dsl.Matcher) {
	m.Match(`$x == $x`, `$x != $x`).Report(`C: suspicious $$`)
}

func errorTyped(m dsl.Matcher) {
	m.Match(`$e != nil`).
		Where(m["e"].Type.Implements(`error`)).
		Report(`C: error check of $e`)
}

func regexpCalls(m dsl.Matcher) {
	m.Match(`regexp.MustCompile($p)`, `regexp.Compile($p)`).
		Where(m["p"].Const).
		Report(`C: constant pattern $p`)
}
