//go:build ignore

package gorules

import "github.com/quasilyte/go-ruleguard/dsl"

func dupCompareB(m dsl.Matcher) {
	m.Match(`$x == $x`, `$x != $x`).Report(`B: operands of $$ are identical`)
}

func lenCompareB(m dsl.Matcher) {
	m.Match(`len($s) == 0`, `len($s) >= 0`).Report(`B: length test of $s`).Suggest(`B($s)`)
}

// file-sensitive
func inFileNamedA(m dsl.Matcher) {
	m.Match(`$x = $x + $y`).
		Where(m.File().Name.Matches(`^(a|positive_tests)\.go$`)).
		Report(`B: $x incremented by $y in a watched file`)
}

// constness-sensitive (no Type.Size filter: ruleguard itself crashes in
// go/types' Sizeof on structs with type-parameter fields)
func bigConst(m dsl.Matcher) {
	m.Match(`$x + $y`).
		Where(m["x"].Const && m["y"].Const).
		Report(`B: constant sum $x + $y`)
}
