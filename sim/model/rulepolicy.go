// Package model holds the small executable reference models the simulation
// checks go-critic against. They are written from the property statements and
// the parameter documentation, not from the implementation; where the
// statement is silent the model abstains (and the abstention is counted).
package model

import (
	"path/filepath"
	"sort"
	"strings"
)

// File classes of a user rule file as the load policy sees them.
const (
	ClassOK         = "ok"
	ClassUnreadable = "unreadable"
	ClassDSL        = "dsl"    // syntax error, empty file, not following the rules DSL
	ClassImport     = "import" // refers to a package that cannot be loaded
)

// RuleGroup is one rule group of a rule file.
type RuleGroup struct {
	Name string   `json:"name"`
	Tags []string `json:"tags,omitempty"`
	Hit  string   `json:"hit"` // the unique diagnostic text this group produces on the probe package
}

// RuleFile is one file of the simulated disk as the model sees it.
type RuleFile struct {
	Path   string      `json:"path"`
	Class  string      `json:"class"`
	Groups []RuleGroup `json:"groups,omitempty"` // groups that are actually readable (after a torn read)
}

// RuleScenario is the input of the policy.
type RuleScenario struct {
	Patterns    []string   `json:"patterns"`
	Files       []RuleFile `json:"files"`
	FailOn      string     `json:"fail_on"`
	FailOnError bool       `json:"fail_on_error"`
	Enable      string     `json:"enable"`
	Disable     string     `json:"disable"`
}

// RuleOutcome is what the policy demands.
type RuleOutcome struct {
	Kind      string   // "error" | "ok" | "abstain"
	Why       string   // for error/abstain
	ErrNames  []string // substrings the error message must contain (the problem is named)
	Hits      []string // expected diagnostics (sorted) when Kind == ok
	Skipped   []string // files that must be reported as skipped when Kind == ok
	Abstained string
}

func splitList(s string) []string {
	var out []string
	for _, p := range strings.Split(s, ",") {
		out = append(out, strings.TrimSpace(p))
	}
	return out
}

// RulePolicy is the reference model of the dynamic-rules checker's
// initialisation and group filtering.
func RulePolicy(sc *RuleScenario) RuleOutcome {
	// effective failOn; an unknown value is always an error
	failOn := sc.FailOn
	if failOn == "" && sc.FailOnError {
		failOn = "all"
	}
	onDSL, onImport, onAll := false, false, false
	for _, k := range strings.Split(failOn, ",") {
		switch k {
		case "":
		case "dsl":
			onDSL = true
		case "import":
			onImport = true
		case "all":
			onAll = true
		default:
			return RuleOutcome{Kind: "error", Why: "unknown failOn value", ErrNames: []string{k}}
		}
	}
	out := RuleOutcome{Kind: "ok"}
	abstain := ""
	var loaded []RuleFile
	for _, pat := range sc.Patterns {
		pat = strings.TrimSpace(pat)
		var matched []RuleFile
		for _, f := range sc.Files {
			if ok, _ := filepath.Match(pat, f.Path); ok {
				matched = append(matched, f)
			}
		}
		if len(matched) == 0 {
			if abstain != "" {
				// an earlier file may or may not have failed first: an error
				// either way, but which one is named is not determined
				return RuleOutcome{Kind: "error", Why: "pattern matches no file (after an undetermined file)"}
			}
			return RuleOutcome{Kind: "error", Why: "pattern matches no file", ErrNames: []string{pat}}
		}
		sort.Slice(matched, func(i, j int) bool { return matched[i].Path < matched[j].Path })
		for _, f := range matched {
			switch f.Class {
			case ClassOK:
				loaded = append(loaded, f)
			case ClassDSL:
				if onDSL || onAll {
					return RuleOutcome{Kind: "error", Why: "dsl failure listed in failOn: " + f.Path}
				}
				if abstain != "" {
					continue
				}
				out.Skipped = append(out.Skipped, f.Path)
			case ClassImport:
				if onImport || onAll {
					return RuleOutcome{Kind: "error", Why: "import failure listed in failOn: " + f.Path}
				}
				out.Skipped = append(out.Skipped, f.Path)
			case ClassUnreadable:
				switch {
				case onAll:
					return RuleOutcome{Kind: "error", Why: "unreadable file with failOn=all: " + f.Path}
				case onDSL || onImport:
					// the statement does not say which class an unreadable
					// file belongs to: no expectation for this scenario
					if abstain == "" {
						abstain = "unreadable file under failOn=" + failOn
					}
				default:
					out.Skipped = append(out.Skipped, f.Path)
				}
			}
		}
	}
	if abstain != "" {
		return RuleOutcome{Kind: "abstain", Why: abstain}
	}
	// group filter
	enAll := sc.Enable == "<all>"
	enName, enTag, disName, disTag := map[string]bool{}, map[string]bool{}, map[string]bool{}, map[string]bool{}
	if !enAll {
		for _, e := range splitList(sc.Enable) {
			if strings.HasPrefix(e, "#") {
				enTag[e[1:]] = true
			} else {
				enName[e] = true
			}
		}
	}
	for _, e := range splitList(sc.Disable) {
		if strings.HasPrefix(e, "#") {
			disTag[e[1:]] = true
		} else {
			disName[e] = true
		}
	}
	expAsked := enTag["experimental"]
	for _, f := range loaded {
		for _, g := range f.Groups {
			enabled := enAll || enName[g.Name]
			experimental := false
			for _, t := range g.Tags {
				if enTag[t] {
					enabled = true
				}
				if t == "experimental" {
					experimental = true
				}
			}
			if !enabled || disName[g.Name] {
				continue
			}
			dis := false
			for _, t := range g.Tags {
				if disTag[t] {
					dis = true
				}
			}
			if dis || (experimental && !expAsked) {
				continue
			}
			out.Hits = append(out.Hits, g.Hit)
		}
	}
	sort.Strings(out.Hits)
	return out
}

// RuleFileSpec says how one file of a scenario is put on the simulated disk.
type RuleFileSpec struct {
	Path   string      `json:"path"`
	Kind   string      `json:"kind"` // valid | unreadable | torn-boundary | torn-inside | empty | dsl-violation | bad-import
	Fault  string      `json:"fault,omitempty"`
	Groups []RuleGroup `json:"groups"`
	Keep   int         `json:"keep,omitempty"` // torn-boundary: groups surviving
}

// RuleRun is one C18 run: the scenario the model judges plus how it is realised.
type RuleRun struct {
	Scenario RuleScenario   `json:"scenario"`
	Specs    []RuleFileSpec `json:"specs"`
	RulesArg string         `json:"rules_arg"` // the literal parameter value (patterns with their spacing)
	Builds   int            `json:"builds"`    // constructions in a row (the disk is re-read each time)
}

// ClassOf maps a file kind to the failure class the load policy sees.
func ClassOf(sp *RuleFileSpec) string {
	switch sp.Kind {
	case "valid":
		return ClassOK
	case "torn-boundary":
		if sp.Keep == 0 {
			return ClassDSL // only the header survives: "imported and not used" does not compile
		}
		return ClassOK
	case "unreadable":
		return ClassUnreadable
	case "bad-import":
		return ClassImport
	}
	return ClassDSL
}

// Rebuild derives Scenario.Files from Specs (after generation or shrinking).
func (r *RuleRun) Rebuild() {
	r.Scenario.Files = nil
	for i := range r.Specs {
		sp := &r.Specs[i]
		mf := RuleFile{Path: sp.Path, Class: ClassOf(sp)}
		switch sp.Kind {
		case "valid":
			mf.Groups = sp.Groups
		case "torn-boundary":
			mf.Groups = sp.Groups[:sp.Keep]
		}
		r.Scenario.Files = append(r.Scenario.Files, mf)
	}
}
