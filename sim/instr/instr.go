// Package instr rewrites go-critic's sources for simulation: it makes text
// splices at byte offsets taken from the type-checked AST (never re-printing a
// file, never adding a line break), so every line number in a panic trace or a
// race report is the original /repo line. The result is fed to the go tool via
// -overlay; /repo itself is never written.
package instr

import (
	"encoding/json"
	"fmt"
	"go/ast"
	"go/token"
	"go/types"
	"os"
	"path/filepath"
	"sort"
	"strings"

	"golang.org/x/tools/go/packages"
)

const rtImport = `gcsimrt "verif.local/gcsim/simrt"`

// Site describes one instrumentation site.
type Site struct {
	ID   int    `json:"id"`
	Kind string `json:"kind"` // yield | map | go | send | recv | sync | fs
	Pos  string `json:"pos"`  // file:line relative to the repo
	Func string `json:"func,omitempty"`
}

// Result is what Instrument returns.
type Result struct {
	Overlay   map[string]string // original path -> rewritten path
	Sites     []Site
	Counts    map[string]int
	Packages  []string
	Added     map[string]string // path of a generated file (inside a package dir) -> content
	ResetVars []string
}

type edit struct {
	off  int
	end  int // == off for pure insertions
	text string
	seq  int
	// closers at equal offsets must nest inside-out
	closer bool
}

type fileCtx struct {
	fset  *token.FileSet
	file  *ast.File
	tf    *token.File
	src   []byte
	info  *types.Info
	edits []edit
	seq   int
	used  bool
	rel   string
	res   *Result
	pkg   *packages.Package
	errs  []string
	tail  []string
	skip  map[ast.Node]bool // communication statements of rewritten selects
	nsel  int
}

func (fc *fileCtx) off(p token.Pos) int { return fc.tf.Offset(p) }

func (fc *fileCtx) insert(p token.Pos, text string) {
	fc.seq++
	fc.edits = append(fc.edits, edit{off: fc.off(p), end: fc.off(p), text: text, seq: fc.seq})
	fc.used = true
}

func (fc *fileCtx) insertCloser(p token.Pos, text string) {
	fc.seq++
	fc.edits = append(fc.edits, edit{off: fc.off(p), end: fc.off(p), text: text, seq: fc.seq, closer: true})
	fc.used = true
}

func (fc *fileCtx) replace(from, to token.Pos, text string) {
	fc.seq++
	fc.edits = append(fc.edits, edit{off: fc.off(from), end: fc.off(to), text: text, seq: fc.seq})
	fc.used = true
}

// replaceKeepLines is replace for a range that may span lines: the line breaks
// it swallows are appended, so no later line changes its number.
func (fc *fileCtx) replaceKeepLines(from, to token.Pos, text string) {
	old := fc.src[fc.off(from):fc.off(to)]
	n := strings.Count(string(old), "\n") - strings.Count(text, "\n")
	for i := 0; i < n; i++ {
		text += "\n"
	}
	fc.replace(from, to, text)
}

func (fc *fileCtx) text(n ast.Node) string {
	return string(fc.src[fc.off(n.Pos()):fc.off(n.End())])
}

// simpleOperand: an expression the select rewrite may move textually (it must
// not contain anything else the instrumenter would splice into).
func simpleOperand(e ast.Expr) bool {
	ok := true
	ast.Inspect(e, func(n ast.Node) bool {
		switch x := n.(type) {
		case *ast.FuncLit:
			ok = false
		case *ast.UnaryExpr:
			if x.Op == token.ARROW {
				ok = false
			}
		}
		return ok
	})
	return ok
}

// rewriteSelect turns a select statement into a switch over gcsimrt.(*Sel).Do.
func (fc *fileCtx) rewriteSelect(x *ast.SelectStmt, fn string) {
	fc.nsel++
	id := fc.nsel
	sv := fmt.Sprintf("gcsimS%d", id)
	if len(x.Body.List) == 0 {
		fc.site("select", x.Pos(), fn)
		fc.replace(x.Pos(), x.End(), "gcsimrt.BlockForever()")
		return
	}
	var chanVars, chanExprs, cases []string
	hasDefault := false
	type plan struct {
		cc     *ast.CommClause
		prefix string
		idx    int
	}
	var plans []plan
	k := 0
	for _, st := range x.Body.List {
		cc := st.(*ast.CommClause)
		if cc.Comm == nil {
			hasDefault = true
			continue
		}
		cv := fmt.Sprintf("gcsimC%d_%d", id, k)
		pl := plan{cc: cc, idx: k}
		var recv *ast.UnaryExpr
		switch c := cc.Comm.(type) {
		case *ast.SendStmt:
			if !simpleOperand(c.Chan) || !simpleOperand(c.Value) {
				fc.fail(c.Pos(), "unsupported: select case with a function literal or a receive inside its operands")
				return
			}
			fc.skip[c] = true
			chanVars, chanExprs = append(chanVars, cv), append(chanExprs, fc.text(c.Chan))
			cases = append(cases, fmt.Sprintf("gcsimrt.SendCase(%s, %s)", cv, fc.text(c.Value)))
		case *ast.ExprStmt:
			recv, _ = ast.Unparen(c.X).(*ast.UnaryExpr)
		case *ast.AssignStmt:
			if len(c.Rhs) == 1 {
				recv, _ = ast.Unparen(c.Rhs[0]).(*ast.UnaryExpr)
			}
			if recv != nil {
				var lhs []string
				for _, l := range c.Lhs {
					if !simpleOperand(l) {
						fc.fail(c.Pos(), "unsupported: select case assigning to a complex expression")
						return
					}
					lhs = append(lhs, fc.text(l))
				}
				f := "Received"
				if len(lhs) == 2 {
					f = "Received2"
				}
				pl.prefix = fmt.Sprintf(" %s %s gcsimrt.%s(%s, %s);", strings.Join(lhs, ", "), c.Tok.String(), f, cv, sv)
			}
		}
		if _, isSend := cc.Comm.(*ast.SendStmt); !isSend {
			if recv == nil || recv.Op != token.ARROW || !simpleOperand(recv.X) {
				fc.fail(cc.Pos(), "unsupported: select communication clause")
				return
			}
			fc.skip[recv] = true
			chanVars, chanExprs = append(chanVars, cv), append(chanExprs, fc.text(recv.X))
			cases = append(cases, fmt.Sprintf("gcsimrt.RecvCase(%s)", cv))
		}
		plans = append(plans, pl)
		k++
	}
	fc.site("select", x.Pos(), fn)
	init := fmt.Sprintf("%s := gcsimrt.NewSel()", sv)
	if len(chanVars) > 0 {
		init = fmt.Sprintf("%s, %s := %s, gcsimrt.NewSel()", strings.Join(chanVars, ", "), sv, strings.Join(chanExprs, ", "))
	}
	args := fmt.Sprint(hasDefault)
	if len(cases) > 0 {
		args += ", " + strings.Join(cases, ", ")
	}
	fc.replace(x.Select, x.Select+token.Pos(len("select")), fmt.Sprintf("switch %s; %s.Do(%s)", init, sv, args))
	for _, pl := range plans {
		// case <comm>:  ->  case <index>: <prefix>
		fc.replaceKeepLines(pl.cc.Case, pl.cc.Colon+1, fmt.Sprintf("case %d:%s", pl.idx, pl.prefix))
	}
}

func (fc *fileCtx) site(kind string, p token.Pos, fn string) int {
	id := len(fc.res.Sites)
	pos := fc.fset.Position(p)
	fc.res.Sites = append(fc.res.Sites, Site{ID: id, Kind: kind, Pos: fmt.Sprintf("%s:%d", fc.rel, pos.Line), Func: fn})
	fc.res.Counts[kind]++
	return id
}

func (fc *fileCtx) fail(p token.Pos, format string, args ...any) {
	pos := fc.fset.Position(p)
	fc.errs = append(fc.errs, fmt.Sprintf("%s:%d: %s", fc.rel, pos.Line, fmt.Sprintf(format, args...)))
}

func isNamed(t types.Type, pkg, name string) bool {
	if t == nil {
		return false
	}
	if p, ok := t.(*types.Pointer); ok {
		t = p.Elem()
	}
	n, ok := t.(*types.Named)
	if !ok {
		return false
	}
	o := n.Obj()
	return o != nil && o.Pkg() != nil && o.Pkg().Path() == pkg && o.Name() == name
}

// syncMethod reports the sync type and method a call resolves to.
func (fc *fileCtx) syncMethod(call *ast.CallExpr) (recv ast.Expr, typ, method string, ok bool) {
	sel, isSel := call.Fun.(*ast.SelectorExpr)
	if !isSel {
		return nil, "", "", false
	}
	s := fc.info.Selections[sel]
	if s == nil || s.Kind() != types.MethodVal {
		return nil, "", "", false
	}
	f, isFunc := s.Obj().(*types.Func)
	if !isFunc || f.Pkg() == nil || f.Pkg().Path() != "sync" {
		return nil, "", "", false
	}
	sig := f.Type().(*types.Signature)
	if sig.Recv() == nil {
		return nil, "", "", false
	}
	rt := sig.Recv().Type()
	for _, name := range []string{"Mutex", "RWMutex", "WaitGroup", "Once", "Cond"} {
		if isNamed(rt, "sync", name) {
			return sel.X, name, f.Name(), true
		}
	}
	return nil, "", "", false
}

// isAtomicOp reports calls of sync/atomic functions, of methods of sync/atomic types, and
// of sync.Map / sync.Pool methods.
func (fc *fileCtx) isAtomicOp(call *ast.CallExpr) bool {
	sel, ok := call.Fun.(*ast.SelectorExpr)
	if !ok {
		return false
	}
	f, ok := fc.info.Uses[sel.Sel].(*types.Func)
	if !ok || f.Pkg() == nil {
		return false
	}
	sig, _ := f.Type().(*types.Signature)
	if sig == nil {
		return false
	}
	if sig.Recv() == nil {
		return f.Pkg().Path() == "sync/atomic"
	}
	rt := sig.Recv().Type()
	if p, isPtr := rt.(*types.Pointer); isPtr {
		rt = p.Elem()
	}
	n, isNamed := rt.(*types.Named)
	if !isNamed || n.Obj().Pkg() == nil {
		return false
	}
	switch n.Obj().Pkg().Path() {
	case "sync/atomic":
		return true
	case "sync":
		return n.Obj().Name() == "Map" || n.Obj().Name() == "Pool"
	}
	return false
}

// addrOf returns the text prefix/suffix that makes expr a pointer to the sync object.
func (fc *fileCtx) addrOf(x ast.Expr, sel *ast.SelectorExpr) (pre, post string) {
	s := fc.info.Selections[sel]
	t := fc.info.TypeOf(x)
	// promoted through embedding: take the address of the full selector path is
	// not expressible textually; handle the direct case and the pointer case.
	if len(s.Index()) > 1 {
		return "", "" // caller checks
	}
	if _, isPtr := t.Underlying().(*types.Pointer); isPtr {
		return "(", ")"
	}
	return "&(", ")"
}

func (fc *fileCtx) funcName(stack []ast.Node) string {
	for i := len(stack) - 1; i >= 0; i-- {
		if fd, ok := stack[i].(*ast.FuncDecl); ok {
			if fd.Recv != nil && len(fd.Recv.List) > 0 {
				return types.ExprString(fd.Recv.List[0].Type) + "." + fd.Name.Name
			}
			return fd.Name.Name
		}
	}
	return ""
}

type Options struct {
	Yields     bool // function-entry yields, go/chan/sync wrappers
	MapSeam    bool
	FSSeam     bool
	RenameMain bool // package main: func main -> gcsimOrigMain
	// GenReset: generate a file that lets the driver put every zero-initialised
	// package-level variable of the package back to its zero value (the boundary
	// between two simulated driver processes), whatever these variables are called.
	GenReset bool
}

func (fc *fileCtx) walk(opt Options) {
	var stack []ast.Node
	goIdx := 0
	ast.Inspect(fc.file, func(n ast.Node) bool {
		if n == nil {
			stack = stack[:len(stack)-1]
			return true
		}
		stack = append(stack, n)
		switch x := n.(type) {
		case *ast.FuncDecl:
			if opt.RenameMain && x.Recv == nil && x.Name.Name == "main" && fc.file.Name.Name == "main" {
				fc.replace(x.Name.Pos(), x.Name.End(), "gcsimOrigMain")
			}
			if opt.Yields && x.Body != nil {
				id := fc.site("yield", x.Body.Lbrace, fc.funcName(stack))
				fc.insert(x.Body.Lbrace+1, fmt.Sprintf(" gcsimrt.Yield(%d);", id))
			}
		case *ast.FuncLit:
			if opt.Yields {
				id := fc.site("yield", x.Body.Lbrace, fc.funcName(stack)+".func")
				fc.insert(x.Body.Lbrace+1, fmt.Sprintf(" gcsimrt.Yield(%d);", id))
			}
		case *ast.GoStmt:
			if !opt.Yields {
				break
			}
			lit, isLit := x.Call.Fun.(*ast.FuncLit)
			if !isLit {
				if id, ok := x.Call.Fun.(*ast.Ident); ok {
					if _, isBuiltin := fc.info.Uses[id].(*types.Builtin); isBuiltin {
						fc.fail(x.Pos(), "unsupported: `go` statement calling a builtin")
						break
					}
				}
				if tv, ok := fc.info.Types[x.Call.Fun]; ok && tv.IsType() {
					fc.fail(x.Pos(), "unsupported: `go` statement with a conversion")
					break
				}
			}
			// must sit directly in a statement list
			parent := stack[len(stack)-2]
			switch parent.(type) {
			case *ast.BlockStmt, *ast.CaseClause, *ast.CommClause:
			default:
				fc.fail(x.Pos(), "unsupported: `go` statement outside a statement list")
			}
			goIdx++
			v := fmt.Sprintf("gcsimT%d", goIdx)
			fc.site("go", x.Pos(), fc.funcName(stack))
			fc.insert(x.Pos(), fmt.Sprintf("%s := gcsimrt.Spawn(); ", v))
			if isLit {
				// after the Yield splice at Lbrace+1 (later seq at same offset sorts after)
				fc.insert(lit.Body.Lbrace+1, fmt.Sprintf(" gcsimrt.TaskBegin(%s); defer gcsimrt.TaskEnd(%s);", v, v))
			} else {
				// go f(a, b) -> go gcsimrt.GoWrap(t, f)(a, b): callee and arguments are
				// still evaluated by the go statement; the wrapper has f's exact type
				fc.insert(x.Call.Fun.Pos(), fmt.Sprintf("gcsimrt.GoWrap(%s, ", v))
				fc.insertCloser(x.Call.Fun.End(), ")")
			}
			fc.insertCloser(x.End(), "; gcsimrt.Spawned()")
		case *ast.SendStmt:
			if !opt.Yields || fc.skip[x] {
				break
			}
			fc.site("send", x.Pos(), fc.funcName(stack))
			fc.insert(x.Chan.Pos(), "gcsimrt.Send(")
			fc.replace(x.Arrow, x.Arrow+2, ",")
			fc.insertCloser(x.Value.End(), ")")
		case *ast.UnaryExpr:
			if !opt.Yields || x.Op != token.ARROW || fc.skip[x] {
				break
			}
			two := false
			if len(stack) >= 2 {
				switch p := stack[len(stack)-2].(type) {
				case *ast.AssignStmt:
					two = len(p.Lhs) == 2 && len(p.Rhs) == 1 && p.Rhs[0] == x
				case *ast.ValueSpec:
					two = len(p.Names) == 2 && len(p.Values) == 1 && p.Values[0] == x
				}
			}
			fc.site("recv", x.Pos(), fc.funcName(stack))
			if two {
				fc.replace(x.OpPos, x.OpPos+2, "gcsimrt.Recv2(")
			} else {
				fc.replace(x.OpPos, x.OpPos+2, "gcsimrt.Recv(")
			}
			fc.insertCloser(x.X.End(), ")")
		case *ast.SelectStmt:
			if opt.Yields {
				fc.rewriteSelect(x, fc.funcName(stack))
			}
		case *ast.RangeStmt:
			t := fc.info.TypeOf(x.X)
			if t == nil {
				break
			}
			switch t.Underlying().(type) {
			case *types.Map:
				if opt.MapSeam {
					id := fc.site("map", x.Pos(), fc.funcName(stack))
					fc.insert(x.X.Pos(), fmt.Sprintf("gcsimrt.MapIter(%d, ", id))
					fc.insertCloser(x.X.End(), ")")
				}
			case *types.Chan:
				if opt.Yields {
					fc.site("recv", x.Pos(), fc.funcName(stack))
					fc.insert(x.X.Pos(), "gcsimrt.ChanIter(")
					fc.insertCloser(x.X.End(), ")")
				}
			}
		case *ast.CallExpr:
			if opt.Yields {
				if id, ok := x.Fun.(*ast.Ident); ok && len(x.Args) == 1 {
					if b, isBuiltin := fc.info.Uses[id].(*types.Builtin); isBuiltin && b.Name() == "close" {
						fc.site("sync", x.Pos(), fc.funcName(stack))
						fc.replace(id.Pos(), id.End(), "gcsimrt.Close")
					}
				}
				if sel, ok := x.Fun.(*ast.SelectorExpr); ok {
					if f, ok := fc.info.Uses[sel.Sel].(*types.Func); ok && f.Pkg() != nil {
						switch f.Pkg().Path() + "." + f.Name() {
						case "time.After", "time.Tick", "time.NewTimer", "time.NewTicker", "time.AfterFunc", "time.Sleep",
							"context.WithTimeout", "context.WithDeadline", "context.WithTimeoutCause", "context.WithDeadlineCause":
							// go-critic has no clock today; a real timer under a simulated
							// schedule would make runs depend on wall-clock time
							fc.fail(x.Pos(), "unsupported: %s.%s (real clock; the simulator has no clock seam because go-critic reads none)", f.Pkg().Name(), f.Name())
						}
					}
				}
				if fc.isAtomicOp(x) {
					// lock-free synchronisation: nothing can block here, but the order of two
					// tasks' atomic operations is a scheduling decision like any other, so each
					// one is followed by a yield point
					switch parent := stack[len(stack)-2].(type) {
					case *ast.ExprStmt:
						switch stack[len(stack)-3].(type) {
						case *ast.BlockStmt, *ast.CaseClause, *ast.CommClause:
							id := fc.site("atomic", x.Pos(), fc.funcName(stack))
							fc.insertCloser(parent.End(), fmt.Sprintf("; gcsimrt.YieldAtomic(%d)", id))
						}
					case *ast.DeferStmt, *ast.GoStmt:
					default:
						if tv, ok := fc.info.Types[x]; ok && tv.Type != nil {
							if _, isTuple := tv.Type.(*types.Tuple); !isTuple {
								id := fc.site("atomic", x.Pos(), fc.funcName(stack))
								fc.insert(x.Pos(), fmt.Sprintf("gcsimrt.After(%d, ", id))
								fc.insertCloser(x.End(), ")")
							}
						}
					}
				}
				if sel, ok := x.Fun.(*ast.SelectorExpr); ok {
					if sl := fc.info.Selections[sel]; sl != nil && sl.Kind() == types.MethodVal {
						if f, ok := sl.Obj().(*types.Func); ok && f.Pkg() != nil && f.Pkg().Path() == "golang.org/x/sync/errgroup" {
							fn := map[string]string{"Go": "EGGo", "Wait": "EGWait", "SetLimit": "EGSetLimit"}[f.Name()]
							switch {
							case fn == "":
								fc.fail(x.Pos(), "unsupported: errgroup.Group.%s", f.Name())
							case len(sl.Index()) > 1:
								fc.fail(x.Pos(), "unsupported: promoted errgroup.Group method through embedding")
							default:
								pre, post := fc.addrOf(sel.X, sel)
								fc.site("sync", x.Pos(), fc.funcName(stack))
								fc.insert(sel.X.Pos(), "gcsimrt."+fn+"("+pre)
								sep := ""
								if len(x.Args) > 0 {
									sep = ", "
								}
								fc.replace(sel.X.End(), x.Lparen+1, post+sep)
							}
						}
					}
				}
				if recv, typ, method, ok := fc.syncMethod(x); ok {
					sel := x.Fun.(*ast.SelectorExpr)
					fn := ""
					switch typ + "." + method {
					case "Mutex.Lock", "RWMutex.Lock":
						fn = "MuLock"
					case "Mutex.Unlock", "RWMutex.Unlock":
						fn = "MuUnlock"
					case "RWMutex.RLock":
						fn = "MuRLock"
					case "RWMutex.RUnlock":
						fn = "MuRUnlock"
					case "WaitGroup.Add":
						fn = "WGAdd"
					case "WaitGroup.Done":
						fn = "WGDone"
					case "WaitGroup.Wait":
						fn = "WGWait"
					case "Once.Do":
						fn = "OnceDo"
					case "Mutex.TryLock", "RWMutex.TryLock", "RWMutex.TryRLock":
						// non-blocking: left alone
					default:
						fc.fail(x.Pos(), "unsupported: sync.%s.%s", typ, method)
					}
					if fn != "" {
						pre, post := fc.addrOf(recv, sel)
						if pre == "" {
							fc.fail(x.Pos(), "unsupported: promoted sync.%s method through embedding", typ)
							break
						}
						fc.site("sync", x.Pos(), fc.funcName(stack))
						// recv.Method(args) -> gcsimrt.Fn(&(recv), args)
						fc.insert(recv.Pos(), "gcsimrt."+fn+"("+pre)
						sep := ""
						if len(x.Args) > 0 {
							sep = ", "
						}
						fc.replace(recv.End(), x.Lparen+1, post+sep)
					}
				}
			}
			if opt.RenameMain {
				// package main of the front-end: loader, exit and fatal seams
				if sel, ok := x.Fun.(*ast.SelectorExpr); ok {
					if f, ok := fc.info.Uses[sel.Sel].(*types.Func); ok && f.Pkg() != nil && f.Type().(*types.Signature).Recv() == nil {
						full := f.Pkg().Path() + "." + f.Name()
						switch {
						case full == "github.com/go-toolsmith/pkgload.LoadPackages" || full == "golang.org/x/tools/go/packages.Load":
							fc.site("loader", x.Pos(), fc.funcName(stack))
							fc.insert(sel.Pos(), "gcsimrt.LoadSeam(")
							fc.insertCloser(sel.End(), ")")
						case full == "os.Exit":
							fc.site("exit", x.Pos(), fc.funcName(stack))
							orig := string(fc.src[fc.off(sel.Pos()):fc.off(sel.End())])
							fc.replace(sel.Pos(), sel.End(), "gcsimrt.Exit")
							fc.tail = append(fc.tail, "var _ = "+orig)
						case full == "log.Fatalf" || full == "log.Fatal" || full == "log.Fatalln":
							fc.site("exit", x.Pos(), fc.funcName(stack))
							orig := string(fc.src[fc.off(sel.Pos()):fc.off(sel.End())])
							fc.replace(sel.Pos(), sel.End(), "gcsimrt."+f.Name())
							fc.tail = append(fc.tail, "var _ = "+orig)
						}
					}
				}
			}
			if opt.FSSeam {
				if sel, ok := x.Fun.(*ast.SelectorExpr); ok {
					if f, ok := fc.info.Uses[sel.Sel].(*types.Func); ok && f.Pkg() != nil {
						repl := ""
						switch f.Pkg().Path() + "." + f.Name() {
						case "os.ReadFile":
							repl = "gcsimrt.FSReadFile"
						case "path/filepath.Glob":
							repl = "gcsimrt.FSGlob"
						case "io/ioutil.ReadFile":
							repl = "gcsimrt.FSReadFile"
						}
						if repl != "" && f.Type().(*types.Signature).Recv() == nil {
							fc.site("fs", x.Pos(), fc.funcName(stack))
							orig := string(fc.src[fc.off(sel.Pos()):fc.off(sel.End())])
							fc.replace(sel.Pos(), sel.End(), repl)
							fc.tail = append(fc.tail, "var _ = "+orig)
						}
					}
				}
			}
		}
		return true
	})
}

func (fc *fileCtx) render() []byte {
	// the import goes right after the package clause, on the same line
	edits := append([]edit(nil), fc.edits...)
	needImport := false
	for _, e := range edits {
		if strings.Contains(e.text, "gcsimrt.") {
			needImport = true
		}
	}
	if needImport {
		edits = append(edits, edit{off: fc.off(fc.file.Name.End()), end: fc.off(fc.file.Name.End()), text: "; import " + rtImport, seq: -1})
	}
	sort.SliceStable(edits, func(i, j int) bool {
		a, b := edits[i], edits[j]
		if a.off != b.off {
			return a.off < b.off
		}
		// at equal offsets: closers first (inner-most first = later seq first),
		// then openers in seq order
		if a.closer != b.closer {
			return a.closer
		}
		if a.closer {
			return a.seq > b.seq
		}
		return a.seq < b.seq
	})
	var out []byte
	last := 0
	for _, e := range edits {
		if e.off < last {
			fc.errs = append(fc.errs, fmt.Sprintf("%s: overlapping edits at offset %d", fc.rel, e.off))
			continue
		}
		out = append(out, fc.src[last:e.off]...)
		out = append(out, e.text...)
		last = e.end
	}
	out = append(out, fc.src[last:]...)
	if len(fc.tail) > 0 {
		if len(out) > 0 && out[len(out)-1] != '\n' {
			out = append(out, '\n')
		}
		for _, t := range fc.tail {
			out = append(out, t...)
			out = append(out, '\n')
		}
	}
	return out
}

// PackageSpec says how to treat one package pattern.
type PackageSpec struct {
	Pattern string
	Opt     Options
}

// Instrument loads the given packages from repoDir and writes rewritten copies under outDir.
func Instrument(repoDir, outDir string, specs []PackageSpec, env []string) (*Result, error) {
	res := &Result{Overlay: map[string]string{}, Counts: map[string]int{}, Added: map[string]string{}}
	fset := token.NewFileSet()
	var patterns []string
	optFor := map[string]Options{}
	for _, s := range specs {
		patterns = append(patterns, s.Pattern)
	}
	cfg := &packages.Config{
		Mode: packages.NeedName | packages.NeedFiles | packages.NeedCompiledGoFiles | packages.NeedSyntax |
			packages.NeedTypes | packages.NeedTypesInfo | packages.NeedImports | packages.NeedDeps,
		Dir:  repoDir,
		Fset: fset,
		Env:  env,
	}
	pkgs, err := packages.Load(cfg, patterns...)
	if err != nil {
		return nil, fmt.Errorf("load: %w", err)
	}
	if len(pkgs) != len(specs) {
		return nil, fmt.Errorf("expected %d packages, loaded %d", len(specs), len(pkgs))
	}
	byPath := map[string]*packages.Package{}
	for _, p := range pkgs {
		byPath[p.PkgPath] = p
	}
	for _, s := range specs {
		// patterns are ./relative; match by suffix
		suffix := strings.TrimPrefix(s.Pattern, ".")
		found := false
		for path := range byPath {
			if strings.HasSuffix(path, suffix) {
				optFor[path] = s.Opt
				found = true
			}
		}
		if !found {
			return nil, fmt.Errorf("pattern %s matched nothing", s.Pattern)
		}
	}
	sort.Slice(pkgs, func(i, j int) bool { return pkgs[i].PkgPath < pkgs[j].PkgPath })
	var allErrs []string
	for _, p := range pkgs {
		if len(p.Errors) > 0 {
			return nil, fmt.Errorf("package %s does not type-check: %v", p.PkgPath, p.Errors[0])
		}
		res.Packages = append(res.Packages, p.PkgPath)
		opt := optFor[p.PkgPath]
		if opt.GenReset && len(p.CompiledGoFiles) > 0 {
			var names []string
			for _, f := range p.Syntax {
				for _, d := range f.Decls {
					gd, ok := d.(*ast.GenDecl)
					if !ok || gd.Tok != token.VAR {
						continue
					}
					for _, sp := range gd.Specs {
						vs := sp.(*ast.ValueSpec)
						if len(vs.Values) != 0 {
							continue // initialised: configuration, not run state
						}
						for _, n := range vs.Names {
							if n.Name != "_" {
								names = append(names, n.Name)
							}
						}
					}
				}
			}
			sort.Strings(names)
			var b strings.Builder
			// The file name sorts last, so its init function runs after every other init
			// function of the package: the snapshot is the state the package has when main
			// starts (zero for plain run state, whatever init assigned otherwise).
			fmt.Fprintf(&b, "package %s\n\n// Generated by the gcsim instrumenter; added through the build overlay only.\n\nimport %s\n\nfunc init() {\n\tvar restore []func()\n", p.Name, rtImport)
			for _, n := range names {
				fmt.Fprintf(&b, "\trestore = append(restore, gcsimrt.Snap(&%s))\n", n)
			}
			b.WriteString("\tgcsimrt.AnalyzerReset = func() {\n\t\tfor _, r := range restore {\n\t\t\tr()\n\t\t}\n\t}\n}\n")
			res.Added[filepath.Join(filepath.Dir(p.CompiledGoFiles[0]), "zz_gcsim_reset.go")] = b.String()
			res.ResetVars = names
		}
		for i, f := range p.Syntax {
			path := p.CompiledGoFiles[i]
			if !strings.HasSuffix(path, ".go") {
				continue
			}
			src, err := os.ReadFile(path)
			if err != nil {
				return nil, err
			}
			rel, _ := filepath.Rel(repoDir, path)
			fc := &fileCtx{fset: fset, file: f, tf: fset.File(f.Pos()), src: src, info: p.TypesInfo, rel: rel, res: res, pkg: p, skip: map[ast.Node]bool{}}
			fc.walk(opt)
			if !fc.used {
				allErrs = append(allErrs, fc.errs...)
				continue
			}
			out := fc.render()
			allErrs = append(allErrs, fc.errs...)
			dst := filepath.Join(outDir, "src", rel)
			if err := os.MkdirAll(filepath.Dir(dst), 0o755); err != nil {
				return nil, err
			}
			if err := os.WriteFile(dst, out, 0o644); err != nil {
				return nil, err
			}
			res.Overlay[path] = dst
		}
	}
	if len(allErrs) > 0 {
		seen := map[string]bool{}
		var uniq []string
		for _, e := range allErrs {
			if !seen[e] {
				seen[e] = true
				uniq = append(uniq, e)
			}
		}
		return nil, fmt.Errorf("instrumenter cannot handle:\n  %s", strings.Join(uniq, "\n  "))
	}
	return res, nil
}

// WriteOverlay writes overlay.json (with extra added files) and sites.json.
func (r *Result) WriteOverlay(outDir string, extra map[string]string) (string, error) {
	m := map[string]string{}
	for k, v := range r.Overlay {
		m[k] = v
	}
	for k, v := range extra {
		m[k] = v
	}
	i := 0
	for k, content := range r.Added {
		dst := filepath.Join(outDir, fmt.Sprintf("added-%d.go", i))
		i++
		if err := os.WriteFile(dst, []byte(content), 0o644); err != nil {
			return "", err
		}
		m[k] = dst
	}
	b, _ := json.MarshalIndent(map[string]any{"Replace": m}, "", " ")
	path := filepath.Join(outDir, "overlay.json")
	if err := os.WriteFile(path, b, 0o644); err != nil {
		return "", err
	}
	sb, _ := json.Marshal(r.Sites)
	if err := os.WriteFile(filepath.Join(outDir, "sites.json"), sb, 0o644); err != nil {
		return "", err
	}
	return path, nil
}
